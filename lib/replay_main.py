"""`bin/check <ID> --replay <path>`: re-run a recorded counterexample against the real code.
exit 1 + VIOLATION line if it still reproduces, exit 0 if it does not."""
import json, sys
import vcommon as vc
import kengine as ke


def _ans(rep):
    import pengine as P
    return P.answer_set(rep["answer"]) if rep.get("ok") else None


def replay(prop, path):
    r = json.load(open(path))
    ok, out, _ = ke.build_native()
    if not ok:
        print("native build failed: " + out[-300:])
        return 2
    if r.get("engine") == "K":
        rep, text = ke.replay_native(r["harness"], r["vals"])
        print(text)
        if rep:
            print(f"VIOLATION property={prop} replay={path}")
            return 1
        return 0 if rep is False else 2
    import pengine as P
    import refsem as R
    b = P.Bridge()
    if r.get("engine") == "M" and r.get("function") == "bloom":
        sh = r["shape"]
        j = {"job": "bloom", "ctor": r["ctor"], "search": 3000}
        if r["ctor"] == "with_params":
            j.update({"m": sh["m"], "k": sh["k"]})
        else:
            j.update({"n": r["native_result"].get("n", 100), "p": r["native_result"].get("p", 0.01)})
        rr = b.job(j)
        b.close()
        print("native:", rr)
        if rr.get("ok") and rr.get("fail_key") is not None:
            print(f"VIOLATION property={prop} replay={path}")
            return 1
        return 0
    if r.get("engine") == "M":
        i = r["inputs"]
        j = {"job": "paginate", "len": i["len"]}
        if i.get("limit") is not None:
            j["limit"] = i["limit"]
        if i.get("offset") is not None:
            j["offset"] = i["offset"]
        rr = b.job(j)
        b.close()
        st = i.get("offset") or 0
        want = list(range(i["len"]))[st:]
        want = want if i.get("limit") is None else want[:i["limit"]]
        got = "panic" if rr.get("panic") else rr.get("rows")
        print("native:", got, "expected:", want)
        if got != want:
            print(f"VIOLATION property={prop} replay={path}")
            return 1
        return 0
    try:
        kind = r.get("kind")
        if kind == "vs_reference":
            rep = b.job({"job": "run", "program": r["program"], "config": r["config"], "workers": r.get("workers", 1),
                         "edb": r["edb"], "history": r.get("history", [])})
            got = _ans(rep)
            want = set(map(tuple, r["expected"]))
            print("engine:", sorted(got) if got is not None else rep.get("error"), "expected:", sorted(want))
            bad = got is None or got != want
        elif kind == "pairwise":
            ra = b.job({"job": "run", "program": r["a_text"], "config": r["a_cfg"], "workers": r["a_workers"],
                        "edb": r["edb"], "history": r["a_history"]})
            rb = b.job({"job": "run", "program": r["b_text"], "config": r["b_cfg"], "workers": r["b_workers"],
                        "edb": r["edb"], "history": r["b_history"]})
            a1, a2 = _ans(ra), _ans(rb)
            print("a:", sorted(a1) if a1 is not None else ra.get("error"), "b:", sorted(a2) if a2 is not None else rb.get("error"))
            bad = a1 != a2
        elif kind == "rewrite":
            r1 = b.job({"job": "exec_ir", "ir": r["before"], "edb": r["edb"]})
            rw = b.job({"job": "rewrite", "ir": r["before"], "pass": r["pass"]})
            if not rw.get("ok"):
                print("pass failed:", rw.get("error"))
                bad = bool(rw.get("panic"))
            else:
                edb2 = dict(r["edb"])
                views = (rw.get("extra") or {}).get("views") or {}
                for name in sorted(views):
                    rv = b.job({"job": "exec_ir", "ir": views[name], "edb": edb2})
                    edb2[name] = rv.get("answer", [])
                r2 = b.job({"job": "exec_ir", "ir": rw["ir"], "edb": edb2})
                a1, a2 = _ans(r1), _ans(r2)
                print("before:", sorted(a1) if a1 is not None else None, "after:", sorted(a2) if a2 is not None else None)
                bad = a1 != a2
        elif kind == "share_all":
            rw = b.job({"job": "share_all", "irs": r["irs"], "derived": r["heads"]})
            i = r["heads"].index(r["head"])
            r1 = b.job({"job": "exec_ir", "ir": r["irs"][i], "edb": r["edb"]})
            edb2 = dict(r["edb"])
            views = rw.get("views") or {}
            for _ in range(len(views) + 1):
                for name in sorted(views):
                    rv = b.job({"job": "exec_ir", "ir": views[name], "edb": edb2})
                    edb2[name] = rv.get("answer", [])
            r2 = b.job({"job": "exec_ir", "ir": rw["irs"][i], "edb": edb2})
            a1, a2 = _ans(r1), _ans(r2)
            print("before:", sorted(a1) if a1 is not None else None, "after:", sorted(a2) if a2 is not None else None)
            bad = a1 != a2
        elif kind == "rewrite-panic":
            rw = b.job({"job": "rewrite", "ir": r["ir"], "pass": r["pass"]})
            bad = bool(rw.get("panic") or rw.get("crash"))
        else:
            print("unknown replay kind", kind)
            return 2
    finally:
        b.close()
    if bad:
        print(f"VIOLATION property={prop} replay={path}")
        return 1
    print("does not reproduce")
    return 0
