"""Engine P property drivers: C01 C02 C03 C04 C05 C06."""
import itertools, json, os, random, time
import smt as S
import vcommon as vc
import kengine as ke
import pengine as P
import encode as E
import refsem as R
import gen as G

VMAX = 50  # symbolic EDB values range over [-VMAX, VMAX] (keeps i64/f64 arithmetic exact for depth<=3 terms)

TIERS = {
    "quick": {"rows": 2, "rows_flat": 2, "k": 3, "timeout_ms": 10000, "n_seeded": 40, "n_templates": 64, "budget_s": 480},
    "thorough": {"rows": 2, "rows_flat": 3, "k": 4, "timeout_ms": 30000, "n_seeded": 100, "n_templates": 10 ** 6,
                 "budget_s": 2400, "max_rows": 1500},
}


class Run:
    def __init__(self, prop, tier):
        self.prop, self.tier = prop, tier
        self.cfg = TIERS[tier]
        E.MAX_ROWS = self.cfg.get("max_rows", 700)
        self.stats = P.Stats()
        self.bridge = P.Bridge()
        self.violations, self.known, self.inconclusive = [], [], []
        self.samples = []
        self.programs = 0
        self.decided = 0
        self.nontrivial = 0
        self.skipped = []
        self.t0 = time.time()
        self.budget_hit = None

    def out_of_time(self):
        """Wall-clock budget of the tier: when it is used up the remaining cases are not started (and are counted)."""
        if time.time() - self.t0 > self.cfg["budget_s"]:
            if self.budget_hit is None:
                self.budget_hit = self.programs
            return True
        return False

    def overtime(self):
        """Hard stop inside one program's comparisons: 25 % over the tier's budget the remaining comparisons of
        the program are dropped (counted as not started), so that a thorough run ends close to its budget."""
        if time.time() - self.t0 > self.cfg["budget_s"] * 1.25:
            if self.budget_hit is None:
                self.budget_hit = self.programs
            return True
        return False

    # ---------------------------------------------------------------------------------
    def rows_for(self, program, kind):
        return self.cfg["rows_flat"] if kind in ("flat", "template", "agg", "shared", "twins") else self.cfg["rows"]

    def compare(self, label, edb_tables, A, B, side, desc):
        """Decide  forall EDB in bounds . side => A == B  (as sets). Returns verdict, concrete EDB."""
        cs = E.edb_constraints(edb_tables, VMAX) + list(side) + [S.NOT(E.set_eq(A, B))]
        v, m = P.solve(cs, self.cfg["timeout_ms"], self.stats)
        if v == "sat":
            return v, P.extract_edb(m, edb_tables)
        return v, None

    def witnesses(self, edb_tables, side, rows, extra_goals=()):
        """Solver-chosen EDBs within the bounds on which `rows` (an answer) is non-empty. Two goals:
        (1) 'stress': every EDB slot present and two rows of some relation agree on all but one column
            (projections collapse them, joins multiply them) - falls back to all slots present;
        (2) 'spread': two distinct answer rows - falls back to a non-empty answer."""
        base = E.edb_constraints(edb_tables, VMAX) + list(side)
        ne = E.nonempty(rows)
        if ne is False:
            return []
        allp = S.AND(*[r.p for rws in edb_tables.values() for r in rws])

        def near(which):
            """rows 0 and 1 of every relation agree on all columns but one (the last / the first)"""
            cs = []
            for rws in edb_tables.values():
                if len(rws) < 2 or len(rws[0].c) < 2:
                    continue
                a, b = rws[0], rws[1]
                n = len(a.c)
                skip = n - 1 if which == "last" else 0
                cs.append(S.AND(*[S.EQ(a.c[j], b.c[j]) for j in range(n) if j != skip]))
            return S.AND(*cs)
        two = S.OR(*[S.AND(a.p, b.p, S.NOT(E.tup_eq(a.c, b.c))) for i, a in enumerate(rows) for b in rows[:i]])
        out = []
        plan = [[S.AND(g_, ne)] for g_ in extra_goals if g_ is not False] + \
               [[S.AND(allp, near("last"), ne)], [S.AND(allp, near("first"), ne), S.AND(allp, ne)], [two, ne]]
        for goals in plan:
            for goal in goals:
                if goal is False:
                    continue
                v, m = P.solve(base + [goal], min(5000, self.cfg["timeout_ms"]), self.stats)
                if v == "sat":
                    w = P.extract_edb(m, edb_tables)
                    if w not in out:
                        out.append(w)
                    break
        return out

    def witness(self, edb_tables, side, rows):
        ws = self.witnesses(edb_tables, side, rows)
        return ws[0] if ws else None

    def record(self, sample):
        if len(self.samples) < 12 or sample.get("verdict") not in ("unsat",):
            if len(self.samples) < 40:
                self.samples.append(sample)

    def violation(self, key, text, replay):
        path = os.path.join(vc.REPLAY, f"{self.prop}-{key}-{len(self.violations)}.json")
        f = vc.open_finding_for(self.prop, key)
        if f:
            msg = f"key={key} {f['what']}"
            if msg not in self.known:
                self.known.append(msg)
            return
        vc.ensure_dirs()
        with open(path, "w") as fh:
            json.dump(replay, fh, indent=1)
        self.violations.append((path, f"{text} (key={key})"))

    # ---------------------------------------------------------------------------------
    def engine_answer(self, case, edb):
        rep = self.bridge.job(case.job(edb))
        self.stats.replayed += 1
        if not rep.get("ok"):
            return None, rep.get("error", "?")
        return P.answer_set(rep["answer"]), None

    def finish(self, level, extra_cov, assumptions):
        self.bridge.close()
        st = self.stats
        if getattr(st, "solver_disagreements", None):
            self.inconclusive.append(f"z3 and cvc5 disagree on {len(st.solver_disagreements)} queries")
        if st.model_mismatches:
            vc.ensure_dirs()
            p = os.path.join(vc.REPLAY, f"model-mismatch-{self.prop}.json")
            with open(p, "w") as fh:
                json.dump(st.model_mismatches[:20], fh, indent=1)
            self.inconclusive.append(f"{len(st.model_mismatches)} model-validation mismatches (encoder does not predict "
                                     f"the engine; see {p})")
        total = max(1, self.decided + len(self.skipped))
        if len(self.skipped) * 2 > total:
            self.inconclusive.append(f"{len(self.skipped)} of {total} cases undecided (solver timeout/unsupported)")
        cov = {
            "programs": self.programs,
            "disagreements_checked": st.replayed,
            "samples": self.samples or [{"note": "no case produced"}],
            "evaluations": self.decided,
            "distinct_nontrivial": self.nontrivial,
            "rule": "one evaluation = one solver query 'exists EDB within the row bound on which the two sides differ'; "
                    "non-trivial = decided (unsat or confirmed sat) for a plan whose answer the solver can make non-empty",
            "queries": st.queries, "unsat": st.unsat, "sat": st.sat, "unknown": st.unknown,
            "solver_s": round(st.solver_s, 1),
            "traces_validated_against_impl": st.model_validations,
            "model_mismatches": len(st.model_mismatches),
            "engine_jobs": self.bridge.jobs,
            "engine_errors": st.engine_errors,
            "unsupported_by_encoder": st.unsupported,
            "skipped_undecided": self.skipped[:30],
            "k_incomplete_cases": st.k_incomplete,
            "queries_crosschecked_with_cvc5": getattr(st, "crosschecked", 0),
            "cvc5_unknown": getattr(st, "crosscheck_unknown", 0),
            "solver_disagreements": len(getattr(st, "solver_disagreements", [])),
            "time_budget_s": self.cfg["budget_s"],
            "budget_exhausted_after_programs": self.budget_hit,
            "bounds": {"rows_per_relation": self.cfg["rows"], "rows_flat": self.cfg["rows_flat"],
                       "fixpoint_rounds": self.cfg["k"], "value_range": [-VMAX, VMAX],
                       "max_slots_per_table": self.cfg.get("max_rows", 700),
                       "solver_timeout_ms": self.cfg["timeout_ms"]},
            "known_findings_suppressed": self.known,
            "inconclusive": self.inconclusive,
            "functions_encoded": REAL_CODE.get(self.prop, REAL_CODE["*"]),
            "encoding": "the IR plans are re-dumped from /repo's working tree by the natively built bridge (native/ilp) on "
                        "every run and executed symbolically by p/encode.py (operator semantics of "
                        "code_generator::generate_collection_tuples); queries are SMT-LIB2 scripts (p/smt.py) decided by z3",
        }
        cov.update(extra_cov)
        vc.write_evidence(self.prop, self.tier, level, cov, assumptions, time.time() - self.t0, len(self.violations))
        return vc.finish(self.prop, self.violations, self.known, self.inconclusive)


def with_k(run, fn):
    """Call fn(k) with the tier's round bound, backing off when the unrolled tables get too large."""
    last = None
    for kk in range(run.cfg["k"], 0, -1):
        try:
            return fn(kk), kk
        except E.Unsupported as ex:
            last = ex
            if "table too large" not in str(ex):
                raise
    raise last


REAL_CODE = {
    "*": ["IQLEngine::execute_tuples_profiled (orchestration recorded by hooks: which IR runs for which head, order, "
          "recursion strategy, partitioning)", "parser::parse_program", "Rule::is_safe", "recursion::{has_recursion,stratify,"
          "build_dependency_graph,find_sccs}", "SipRewriter::rewrite_program", "magic_sets::MagicSetRewriter::{detect_query_"
          "bindings,rewrite_program}", "IRBuilder::build_ir", "JoinPlanner::plan_joins", "SubplanSharer::share_subplans",
          "BooleanSpecializer::specialize", "Optimizer::optimize", "IQLEngine::{get_rule_heads,detect_recursion_info,"
          "topological_sort_ir_nodes,execute_shared_views}", "CodeGenerator::{detect_transitive_closure_pattern,"
          "detect_bound_tc_pattern,detect_recursive_union_for_relation,contains_join,execute_with_config}"],
    "C05": ["IRBuilder::build_ir (plans under test)", "Optimizer::optimize", "Optimizer::{eliminate_identity_maps,"
            "eliminate_always_true_filters,eliminate_always_false_filters,fuse_consecutive_maps,fuse_consecutive_filters,"
            "pushdown_filters,eliminate_empty_unions,apply_all_rules,fuse_to_flatmap,fuse_to_join_flatmap} (hook verif_pass)",
            "JoinPlanner::plan_joins", "BooleanSpecializer::specialize", "SubplanSharer::share_subplans (per head and over all "
            "heads of a program)", "Optimizer::remap_projection_for_join_flatmap (Kani)", "CodeGenerator::execute (replay)"],
}

ASSUME_P = [
    "operator semantics of IRNode as implemented by the DD closures in code_generator (encode.py PlanEval) - validated "
    "on every run against the real engine on witness databases (traces_validated_against_impl)",
    "Int64 values only, |v| <= %d; EDB relations are sets" % VMAX,
    "every sat answer is replayed on the natively compiled engine before it is reported",
]


def corpus(run, kinds, with_templates=False, rec_templates=0, all_templates=False):
    g = G.Gen(vc.seed() * 7919 + 17)
    out = []
    if rec_templates:
        ref = G.rec_ref_templates()
        rt = G.rec_templates()[:-len(ref)]
        if rec_templates < len(rt):
            step = -(-len(rt) // rec_templates)
            rt = rt[vc.seed() % step::step]
        # bound queries whose recursive relation is referenced elsewhere too: always all of them
        out.extend((t, "rec") for t in rt + ref)
    if with_templates:
        ts = G.templates()
        if len(ts) > run.cfg["n_templates"] and not all_templates:
            # stratified: every step-th template (the families are laid out contiguously), offset by the seed
            step = -(-len(ts) // run.cfg["n_templates"])
            ts = ts[vc.seed() % step::step]
        out.extend((t, "template") for t in ts)
        st = G.string_templates()
        if run.tier == "quick" and not all_templates:
            st = st[vc.seed() % 2::2]
        out.extend((t, "template") for t in st)
    n = run.cfg["n_seeded"]
    tries = made = 0
    while made < n and tries < n * 5:
        tries += 1
        kind = kinds[tries % len(kinds)]
        try:
            p, k = g.program(kind)
        except Exception:
            continue
        out.append((p, k))
        made += 1
    # interleave the families round-robin (each family shuffled by the seed) so that a run cut short by its time
    # budget still touches all of them, the cheap fixed families first
    rnd = random.Random(vc.seed() + 99)
    fam = {}
    for p, k in out:
        key = k
        if k == "rec" and p.get("query") == "__query__":
            key = "rec-magic"
        fam.setdefault(key, []).append((p, k))
    for v in fam.values():
        rnd.shuffle(v)
    order = sorted(fam, key=lambda x: (x not in ("rec-magic", "template"), x))
    res = []
    while any(fam.values()):
        for key in order:
            if fam[key]:
                res.append(fam[key].pop())
    return res


def prepare(run, program, kind, case, arities):
    """reveal + validate + symbolic script. Returns dict or None."""
    rep, w = P.reveal(run.bridge, case, arities, run.stats)
    if rep is None:
        return None
    try:
        P.validate_model(rep, w, case, run.cfg["k"], run.stats)
    except E.Unsupported as ex:
        run.stats.note_unsupported(str(ex))
    if run.prop == "C04":
        # "executing a query never changes the stored base facts": the engine's own input tuples for the
        # user relations must be the same before and after the call (magic_* seed relations may be added)
        for rel in arities:
            b0 = sorted(map(tuple, rep.get("inputs_before", {}).get(rel, [])))
            b1 = sorted(map(tuple, rep.get("inputs_after", {}).get(rel, [])))
            if b0 != b1:
                run.violation("base-facts-changed-" + kind, f"executing {case.text!r} changed stored relation {rel}",
                              {"property": run.prop, "engine": "P", "kind": "pairwise", "program": case.text,
                               "a": case.describe(), "b": case.describe(), "a_text": case.text, "b_text": case.text,
                               "a_cfg": case.cfg, "b_cfg": case.cfg, "a_workers": 1, "b_workers": 1,
                               "a_history": case.history, "b_history": case.history, "edb": w,
                               "note": f"{rel}: before {b0} after {b1}"})
    return {"rep": rep, "witness": w}


# =====================================================================================
# C01 / C06: plan vs reference semantics
# =====================================================================================

def check_vs_reference(run, program, kind, configs, key_fn):
    text = R.render(program)
    arities = R.edb_arity(program)
    n = run.rows_for(program, kind)
    run.programs += 1
    # 1. let the real engine reveal what it executes under each configuration
    groups, order = {}, []
    for cfg in configs:
        case = P.Case(program, text, cfg)
        pr = prepare(run, program, kind, case, arities)
        if pr is None:
            continue
        sk = P.script_key(pr["rep"], set(arities))
        if sk not in groups:
            groups[sk] = {"case": case, "rep": pr["rep"], "members": []}
            order.append(sk)
        groups[sk]["members"].append(P.cfg_str(cfg))
    for sk in order:
        g = groups[sk]
        case, rep, cfg = g["case"], g["rep"], g["case"].cfg

        def build(kk):
            S.reset()
            edb = {rel: E.sym_table(rel, ar, n) for rel, ar in arities.items()}
            ref_tables, ref_conv = R.model_sym(program, edb, kk)
            inputs = dict(edb)
            inputs.update(P.concrete_tables(P.seeds_of(rep, set(arities))))
            plan = E.run_script(rep["events"], inputs, kk)
            try:
                coll = S.name_bool(R.agg_collision_goal(program, ref_tables))
            except E.Unsupported:
                coll = False
            return edb, ref_tables.get(program["query"], []), ref_conv, plan, coll
        try:
            (edb, ref, ref_conv, plan, coll), k = with_k(run, build)
        except E.Unsupported as ex:
            run.stats.note_unsupported(str(ex))
            run.skipped.append({"program": text, "config": P.cfg_str(cfg), "why": str(ex)})
            continue
        side = list(plan.conv) + list(ref_conv)
        # solver-directed witness: an EDB on which the reference answer is non-empty (two rows if possible);
        # the real engine must agree with the independent concrete evaluator on it
        wits = run.witnesses(edb, side, ref, extra_goals=[coll])
        wit = wits[0] if wits else None
        differs = False
        for wit in wits:
            got_w, err_w = run.engine_answer(case, wit)
            try:
                want_w = R.model_c(program, wit).get(program["query"], set())
            except E.Unsupported:
                want_w = None
            if want_w is not None and (got_w is None or got_w != want_w):
                key = key_fn(program, kind, rep, plan)
                run.violation(key, f"engine answer differs from the stratified least model on a solver-chosen witness "
                                   f"database: {text!r} cfg={P.cfg_str(cfg)}",
                              {"property": run.prop, "engine": "P", "kind": "vs_reference", "program": text,
                               "structure": program, "config": cfg, "workers": 1, "history": [], "edb": wit,
                               "engine_answer": sorted(got_w) if got_w is not None else None, "engine_error": err_w,
                               "expected": sorted(want_w)})
                run.decided += 1
                run.nontrivial += 1
                run.record({"program": text, "configs": g["members"][:6], "verdict": "witness-differs", "edb": wit,
                            "engine": sorted(got_w) if got_w is not None else err_w, "expected": sorted(want_w)})
                differs = True
                break
            if want_w is not None:
                try:
                    inputs_w = dict(wit)
                    inputs_w.update(P.seeds_of(rep, set(arities)))
                    pred = E.concrete_set(E.run_script(rep["events"], P.concrete_tables(inputs_w), k).answer)
                    run.stats.model_validations += 1
                    if pred != got_w:
                        run.stats.model_mismatches.append({"case": case.describe(), "edb": wit, "model": sorted(pred),
                                                           "engine": sorted(got_w)})
                except E.Unsupported as ex:
                    run.stats.note_unsupported(str(ex))
        if differs:
            continue
        t0 = time.time()
        v, cex = run.compare(text, edb, plan.answer, ref, side, case.describe())
        ms = int((time.time() - t0) * 1000)
        sample = {"program": text, "configs": g["members"][:6], "rows": n, "k": k, "verdict": v, "solver_ms": ms,
                  "strategies": plan.strategies, "witnesses_checked": len(wits)}
        if v == "unknown":
            run.skipped.append({"program": text, "config": P.cfg_str(cfg), "why": "solver timeout"})
            run.record(sample)
            continue
        run.decided += 1
        if side and any(x is not True for x in side):
            # is the round bound complete for this program?
            v2, _ = P.solve(E.edb_constraints(edb, VMAX) + [S.NOT(S.AND(*side))], run.cfg["timeout_ms"], run.stats)
            if v2 != "unsat":
                run.stats.k_incomplete += 1
                sample["k_complete"] = False
        if v == "unsat":
            run.nontrivial += 1
            run.record(sample)
            continue
        # sat: replay on the real engine against the independent concrete evaluator
        got, err = run.engine_answer(case, cex)
        try:
            want = R.model_c(program, cex).get(program["query"], set())
        except E.Unsupported as ex:
            run.inconclusive.append(f"concrete reference failed on replay: {ex}")
            continue
        sample.update({"edb": cex, "engine": sorted(got) if got is not None else err, "expected": sorted(want)})
        run.record(sample)
        if got is None or got != want:
            run.nontrivial += 1
            key = key_fn(program, kind, rep, plan)
            run.violation(key, f"engine answer differs from the stratified least model: {text!r} cfg={P.cfg_str(cfg)}",
                          {"property": run.prop, "engine": "P", "kind": "vs_reference", "program": text,
                           "structure": program, "config": cfg, "workers": 1, "history": [], "edb": cex,
                           "engine_answer": sorted(got) if got is not None else None, "engine_error": err,
                           "expected": sorted(want)})
        else:
            run.stats.model_mismatches.append({"case": case.describe(), "edb": cex, "note": "sat not reproduced",
                                               "engine": sorted(got), "expected": sorted(want)})


def key_c01(program, kind, rep, plan):
    comps, recursive, _ = R.sccs(program)
    if any(len(c) > 1 for c in comps):
        return "mutual-recursion-single-pass"
    kinds = sorted(set(plan.strategies.values()))
    if kinds:
        return "recursion-" + "-".join(kinds)
    if any(t[0] == "agg" for r in program["rules"] for t in r["head"][1]):
        return "aggregate"
    return "nonrecursive-" + kind


def run_c01(run):
    for program, kind in corpus(run, ["flat", "shared", "rec", "twins", "rec", "agg", "mutual", "flat", "rec"], with_templates=True,
                                rec_templates=200, all_templates=True):
        if run.out_of_time():
            break
        check_vs_reference(run, program, kind, [P.DEFAULT_CFG], key_c01)
    return run.finish("translation_validation",
                      {"explanation": "plans executed by IQLEngine::execute_tuples under the default configuration vs the "
                                      "stratified least model computed from the program text by an independent evaluator"},
                      ASSUME_P + ["recursion: both fixpoints are unrolled k rounds; the claim is restricted to EDBs on "
                                  "which round k+1 adds nothing (k_incomplete_cases counts programs where the solver "
                                  "can exceed k within the row bound)"])


def run_c06(run):
    def key(program, kind, rep, plan):
        fs = sorted({t[1] for r in program["rules"] for t in r["head"][1] if t[0] == "agg"})
        return "aggregate-" + "-".join(fs)
    cfgs = P.ALL_CONFIGS if run.tier == "thorough" else [P.DEFAULT_CFG, P.OFF_CFG] + \
        [[i == j for i in range(5)] for j in range(5)] + [[i != j for i in range(5)] for j in range(5)]
    progs = [(t, "agg") for t in G.agg_templates()] + corpus(run, ["agg"])
    random.Random(vc.seed() + 3).shuffle(progs)
    for program, kind in progs:
        if run.out_of_time():
            break
        check_vs_reference(run, program, kind, cfgs, key)
    return run.finish("translation_validation",
                      {"explanation": "aggregate heads: engine plans under optimizer configurations vs the reference "
                                      "'one row per group, count = distinct body valuations, sum/min/max/count_distinct over them'",
                       "configs": [P.cfg_str(c) for c in cfgs]},
                      ASSUME_P + ["avg and ranking aggregates are outside the Int fragment"])


# =====================================================================================
# C02: all optimizer configurations agree (engine vs engine)
# =====================================================================================

def check_pairwise(run, program, kind, cases, key, what):
    """All cases must denote the same answer as cases[0] on every EDB."""
    text = R.render(program)
    arities = R.edb_arity(program)
    n = run.rows_for(program, kind)
    groups = {}
    order = []
    errored = []
    for case in cases:
        ar2 = dict(arities)
        pr = prepare(run, case.program, kind, case, ar2)
        if pr is None:
            errored.append(case)
            continue
        rep = pr["rep"]
        sk = P.script_key(rep, set(arities), extra=str(case.workers))
        if sk not in groups:
            groups[sk] = {"case": case, "rep": rep, "members": []}
            order.append(sk)
        groups[sk]["members"].append(case.label or P.cfg_str(case.cfg))
    run.programs += 1
    if len(order) < 1:
        return
    if errored:
        # the engine answers under some cases and fails under others: that already is a difference
        okc = groups[order[0]]["case"]
        w = P.witness_edb(arities)
        a0, e0 = run.engine_answer(okc, w)
        for bad in errored[:3]:
            a1, e1 = run.engine_answer(bad, w)
            if (a0 is None) != (a1 is None):
                kk = key(program, kind, groups[order[0]], {"case": bad, "members": [bad.label or P.cfg_str(bad.cfg)]}) if callable(key) else key
                run.decided += 1
                run.nontrivial += 1
                run.record({"program": text, "verdict": "error-vs-answer", "a": okc.describe(), "b": bad.describe(),
                            "answer_a": sorted(a0) if a0 is not None else e0, "answer_b": sorted(a1) if a1 is not None else e1})
                run.violation(kk + "-error", f"{what}: the engine answers {text!r} under {okc.label or P.cfg_str(okc.cfg)} but fails "
                                             f"under {bad.label or P.cfg_str(bad.cfg)}: {e1}",
                              {"property": run.prop, "engine": "P", "kind": "pairwise", "program": text,
                               "a": okc.describe(), "b": bad.describe(), "a_text": okc.text, "b_text": bad.text,
                               "a_cfg": okc.cfg, "b_cfg": bad.cfg, "a_workers": okc.workers, "b_workers": bad.workers,
                               "a_history": okc.history, "b_history": bad.history, "edb": w,
                               "answer_a": sorted(a0) if a0 is not None else None,
                               "answer_b": sorted(a1) if a1 is not None else None, "error_a": e0, "error_b": e1})
                break
    if len(order) == 1:
        run.record({"program": text, "distinct_plans": 1, "verdict": "identical-plans",
                    "members": groups[order[0]]["members"][:6]})
        return

    def build(kk):
        S.reset()
        edb_ = {rel: E.sym_table(rel, ar, n) for rel, ar in arities.items()}
        plans_ = {}
        for sk_ in order:
            g_ = groups[sk_]
            inputs = dict(edb_)
            inputs.update(P.concrete_tables(P.seeds_of(g_["rep"], set(arities))))
            try:
                plans_[sk_] = E.run_script(g_["rep"]["events"], inputs, kk)
            except E.Unsupported as ex:
                if "table too large" in str(ex):
                    raise
                run.stats.note_unsupported(str(ex))
                run.skipped.append({"program": text, "case": g_["case"].describe(), "why": str(ex)})
        return edb_, plans_
    try:
        (edb, plans), k = with_k(run, build)
    except E.Unsupported as ex:
        run.stats.note_unsupported(str(ex))
        run.skipped.append({"program": text, "why": str(ex)})
        return
    if order[0] not in plans:
        return
    base = groups[order[0]]
    pb = plans[order[0]]
    # solver-directed witness: all cases must agree with the base case on the real engine
    for wit in run.witnesses(edb, list(pb.conv), pb.answer):
        a0, e0 = run.engine_answer(base["case"], wit)
        for sk in order[1:]:
            g = groups[sk]
            if sk not in plans:
                continue
            a1, e1 = run.engine_answer(g["case"], wit)
            if a1 != a0:
                kk = key(program, kind, base, g) if callable(key) else key
                run.violation(kk, f"{what}: answers differ on a solver-chosen witness database for {text!r}: "
                                  f"{base['members'][0]} vs {g['members'][0]}",
                              {"property": run.prop, "engine": "P", "kind": "pairwise", "program": text,
                               "a": base["case"].describe(), "b": g["case"].describe(),
                               "a_text": base["case"].text, "b_text": g["case"].text,
                               "a_cfg": base["case"].cfg, "b_cfg": g["case"].cfg,
                               "a_workers": base["case"].workers, "b_workers": g["case"].workers,
                               "a_history": base["case"].history, "b_history": g["case"].history,
                               "edb": wit, "answer_a": sorted(a0) if a0 is not None else None,
                               "answer_b": sorted(a1) if a1 is not None else None, "error_a": e0, "error_b": e1})
                run.decided += 1
                run.nontrivial += 1
                run.record({"program": text, "verdict": "witness-differs", "edb": wit, "a": base["members"][:3],
                            "b": g["members"][:3], "answer_a": sorted(a0) if a0 is not None else e0,
                            "answer_b": sorted(a1) if a1 is not None else e1})
                plans.pop(sk, None)
    for sk in order[1:]:
        if sk not in plans:
            continue
        if run.overtime():
            break
        g, pl = groups[sk], plans[sk]
        side = list(pb.conv) + list(pl.conv)
        t0 = time.time()
        v, cex = run.compare(text, edb, pl.answer, pb.answer, side, g["case"].describe())
        ms = int((time.time() - t0) * 1000)
        sample = {"program": text, "a": base["members"][:4], "b": g["members"][:4], "rows": n, "k": k, "verdict": v,
                  "solver_ms": ms, "what": what}
        if v == "unknown":
            run.skipped.append({"program": text, "case": g["case"].describe(), "why": "solver timeout"})
            run.record(sample)
            continue
        run.decided += 1
        if v == "unsat":
            run.nontrivial += 1
            run.record(sample)
            continue
        a1, e1 = run.engine_answer(base["case"], cex)
        a2, e2 = run.engine_answer(g["case"], cex)
        if a1 == a2 and g["case"].workers > 1:
            # the solver's partition is an arbitrary function of the tuple; the real hash may split this EDB
            # differently: try the other worker counts on the same database before giving up
            for w in (2, 3, 4, 5, 7, 8):
                alt = P.Case(g["case"].program, g["case"].text, g["case"].cfg, workers=w, history=g["case"].history,
                             label=f"workers={w}")
                a3, e3 = run.engine_answer(alt, cex)
                if a3 != a1:
                    a2, e2 = a3, e3
                    g = dict(g)
                    g["case"] = alt
                    break
        sample.update({"edb": cex, "answer_a": sorted(a1) if a1 is not None else e1,
                       "answer_b": sorted(a2) if a2 is not None else e2})
        run.record(sample)
        if a1 != a2:
            run.nontrivial += 1
            kk = key(program, kind, base, g) if callable(key) else key
            run.violation(kk, f"{what}: answers differ for {text!r}: {base['members'][0]} vs {g['members'][0]}",
                          {"property": run.prop, "engine": "P", "kind": "pairwise", "program": text,
                           "a": base["case"].describe(), "b": g["case"].describe(),
                           "a_text": base["case"].text, "b_text": g["case"].text,
                           "a_cfg": base["case"].cfg, "b_cfg": g["case"].cfg,
                           "a_workers": base["case"].workers, "b_workers": g["case"].workers,
                           "a_history": base["case"].history, "b_history": g["case"].history,
                           "edb": cex, "answer_a": sorted(a1) if a1 is not None else None,
                           "answer_b": sorted(a2) if a2 is not None else None, "error_a": e1, "error_b": e2})
        else:
            run.stats.model_mismatches.append({"case": g["case"].describe(), "edb": cex, "note": "sat not reproduced",
                                               "answer": sorted(a1) if a1 is not None else e1})


def run_c02(run):
    def key(program, kind, base, g):
        a, b = base["case"].cfg, g["case"].cfg
        diff = [P.CFG_NAMES[i] for i in range(5) if a[i] != b[i]]
        return "config-" + kind + "-" + "+".join(diff)
    for program, kind in corpus(run, ["flat", "shared", "twins", "rec", "agg", "twins", "flat", "rec", "shared"], with_templates=True,
                                rec_templates=200 if run.tier == "thorough" else 20):
        if run.out_of_time():
            break
        text = R.render(program)
        if kind == "template" or run.tier == "thorough":
            cfgs = P.ALL_CONFIGS
        else:
            cfgs = [P.OFF_CFG, P.DEFAULT_CFG] + [[i == j for i in range(5)] for j in range(5)] + \
                   [[i != j for i in range(5)] for j in range(5)]
        cases = [P.Case(program, text, c) for c in cfgs]
        check_pairwise(run, program, kind, cases, key, "optimizer configurations")
    return run.finish("translation_validation",
                      {"explanation": "for each program the plans executed under the optimizer configurations are "
                                      "compared pairwise (against the all-off plan) over a symbolic EDB"},
                      ASSUME_P)


# =====================================================================================
# C03: worker count
# =====================================================================================

def run_c03(run):
    workers = [2, 3] if run.tier == "quick" else [2, 3, 4, 8]
    part = 0
    progs = [(t, "agg") for t in G.partition_templates()] + corpus(run, ["flat", "agg", "flat", "agg", "rec"], with_templates=False)
    for program, kind in progs:
        if run.out_of_time():
            break
        text = R.render(program)
        cases = [P.Case(program, text, P.DEFAULT_CFG, workers=1, label="workers=1")]
        for w in workers:
            cases.append(P.Case(program, text, P.DEFAULT_CFG, workers=w, label=f"workers={w}"))
            cases.append(P.Case(program, text, P.OFF_CFG, workers=w, label=f"workers={w},opt-off"))
        # replay helper tries several worker counts because the solver's partition is arbitrary
        check_pairwise(run, program, kind, cases, "partitioned-" + kind, "worker count")
    return run.finish("translation_validation",
                      {"explanation": "plans that the real guard lets execute_with_config hash-partition are evaluated per "
                                      "partition under an uninterpreted tuple->worker function (covers every hash "
                                      "function) and compared with the single-worker plan"},
                      ASSUME_P + ["partitioning is modelled as an arbitrary function of the tuple's values modulo W"])


# =====================================================================================
# C04: clause order, repetition, history
# =====================================================================================

def run_c04(run):
    rnd = random.Random(vc.seed() + 5)
    # bound recursive queries (magic sets leave seed relations behind in the engine): a stride of the fixed family
    mq = [t for t in G.rec_templates() if t["query"] == "__query__"]
    if run.tier == "quick":
        mq = mq[vc.seed() % 4::4]
    progs = [(t, "flat") for t in G.order_templates()] + [(t, "rec") for t in mq] + \
        corpus(run, ["flat", "rec", "shared", "twins", "agg", "rec", "mutual"])
    prev_text = None
    for program, kind in progs:
        if run.out_of_time():
            break
        text = R.render(program)
        rules = program["rules"]
        cases = [P.Case(program, text, P.DEFAULT_CFG, label="original")]
        body, last = rules[:-1], rules[-1]
        # the query clause stays last; other clauses of the query head may move too
        perms = list(itertools.permutations(range(len(body))))
        rnd.shuffle(perms)
        nperm = 24 if (run.tier == "thorough" or len(body) <= 3) else 4
        for pi, perm in enumerate(perms[:nperm]):
            if list(perm) == list(range(len(body))):
                continue
            p2 = {"rules": [body[i] for i in perm] + [last], "query": program["query"]}
            cases.append(P.Case(p2, R.render(p2), P.DEFAULT_CFG, label=f"perm{perm}"))
        if body:
            j = rnd.randrange(len(body))
            p3 = {"rules": body[: j + 1] + [body[j]] + body[j + 1:] + [last], "query": program["query"]}
            cases.append(P.Case(p3, R.render(p3), P.DEFAULT_CFG, label=f"dup{j}"))
        cases.append(P.Case(program, text, P.DEFAULT_CFG, history=[text], label="history=self"))
        if prev_text:
            cases.append(P.Case(program, text, P.DEFAULT_CFG, history=[prev_text], label="history=other"))
        # bound queries with a different constant first (magic seeds are left behind in the engine)
        alt = json.loads(json.dumps(program))
        changed = False
        for l in alt["rules"][-1]["body"]:
            if l[0] in ("pos", "neg"):
                for t in l[2]:
                    if t[0] == "const":
                        t[1] = t[1] + 1
                        changed = True
            elif l[0] == "cmp" and l[2] == "=" and l[3][0] == "const":
                l[3][1] = l[3][1] + 1
                changed = True
        if changed:
            alt = _tuplify(alt)
            cases.append(P.Case(program, text, P.DEFAULT_CFG, history=[R.render(alt)], label="history=other-constant"))
        def key(pr, kd, b, g):
            comps, _, _ = R.sccs(pr)
            shape = "mutual-recursion" if any(len(c) > 1 for c in comps) else kd
            return "order-history-" + g["case"].label.split("(")[0].split("=")[0] + "-" + shape
        check_pairwise(run, program, kind, cases, key, "clause order / history")
        prev_text = text
    return run.finish("translation_validation",
                      {"explanation": "the plan executed for a program is compared with the plans executed for its clause "
                                      "permutations (query last), a duplicated clause, and the same program after other "
                                      "programs ran on the same IQLEngine (left-over catalog entries and magic seeds are "
                                      "part of the dumped inputs)"},
                      ASSUME_P)


def _tuplify(x):
    if isinstance(x, list):
        if x and isinstance(x[0], str) and x[0] in ("var", "const", "wild", "agg", "expr", "pos", "neg", "cmp", "let", "bin"):
            return tuple(_tuplify(y) for y in x)
        return [_tuplify(y) for y in x]
    if isinstance(x, dict):
        return {k: (tuple(_tuplify(y) for y in v) if k == "head" else _tuplify(v)) for k, v in x.items()}
    return x


# =====================================================================================
# C05: rewrite passes preserve plan semantics
# =====================================================================================

PASSES = ["optimize", "plan_joins", "specialize", "share_subplans", "pushdown_filters", "fuse_consecutive_maps",
          "fuse_consecutive_filters", "eliminate_identity_maps", "eliminate_always_true_filters",
          "eliminate_always_false_filters", "eliminate_empty_unions", "apply_all_rules", "fuse_to_flatmap",
          "fuse_to_join_flatmap"]


def scans_of(ir, acc):
    if ir["op"] == "Scan":
        acc.setdefault(ir["rel"], len(ir.get("schema", [])) or ir.get("w", 0))
    for k in ("input", "left", "right"):
        if k in ir and isinstance(ir[k], dict):
            scans_of(ir[k], acc)
    for i in ir.get("inputs", []) or []:
        scans_of(i, acc)
    return acc


BASE_RELS = {"a", "b", "c", "d", "e", "s", "t"}


def untyped_derived(env_ar):
    """A plan that scans both a string-typed base relation and a derived relation: the derived relation's column
    types are not known in free-table mode, so the case is left out (counted)."""
    return any(r in P.REL_TYPES for r in env_ar) and any(r not in BASE_RELS for r in env_ar)


def check_rewrite(run, ir, label, passes, derived):
    env_ar = scans_of(ir, {})
    if untyped_derived(env_ar):
        run.stats.note_unsupported("derived relation next to string-typed columns (free-table mode)")
        return
    n = run.cfg["rows"]
    S.reset()
    tables = {rel: E.sym_table(rel, ar, n) for rel, ar in env_ar.items()}
    try:
        before = E.distinct(E.PlanEval(tables).ev(ir))
    except E.Unsupported as ex:
        run.stats.note_unsupported(str(ex))
        return
    wit = run.witness(tables, [], before)
    wit_before = None
    if wit is not None:
        rb = run.bridge.job({"job": "exec_ir", "ir": ir, "edb": wit})
        wit_before = P.answer_set(rb["answer"]) if rb.get("ok") else None
        try:
            pred = E.concrete_set(E.distinct(E.PlanEval(P.concrete_tables(wit)).ev(ir)))
            run.stats.model_validations += 1
            if wit_before is not None and pred != wit_before:
                run.stats.model_mismatches.append({"plan": label, "edb": wit, "model": sorted(pred),
                                                   "engine": sorted(wit_before), "ir": ir})
        except E.Unsupported as ex:
            run.stats.note_unsupported(str(ex))
    for ps in passes:
        rep = run.bridge.job({"job": "rewrite", "ir": ir, "pass": ps, "derived": derived})
        if not rep.get("ok"):
            if rep.get("panic") or rep.get("crash"):
                run.violation("pass-panic-" + ps, f"pass {ps} panics on a well-formed plan ({label})",
                              {"property": run.prop, "engine": "P", "kind": "rewrite-panic", "pass": ps, "ir": ir})
            else:
                run.stats.engine_errors[rep.get("error", "?")[:60]] = 1
            continue
        after_ir = rep["ir"]
        if json.dumps(after_ir, sort_keys=True) == json.dumps(ir, sort_keys=True) and not (rep.get("extra") or {}).get("views"):
            continue
        env2 = dict(tables)
        views = (rep.get("extra") or {}).get("views") or {}
        try:
            pending = dict(views)
            guard = 0
            while pending and guard < 10:
                guard += 1
                for name in sorted(pending):
                    need = scans_of(pending[name], {})
                    if all((r in env2) or (r not in views) for r in need):
                        env2[name] = E.distinct(E.PlanEval(env2).ev(pending[name]))
                        del pending[name]
                        break
            after = E.distinct(E.PlanEval(env2).ev(after_ir))
        except E.Unsupported as ex:
            run.stats.note_unsupported(str(ex))
            continue
        if wit is not None and wit_before is not None:
            edb_w = dict(wit)
            okv = True
            for name in sorted(views):
                rv = run.bridge.job({"job": "exec_ir", "ir": views[name], "edb": edb_w})
                if not rv.get("ok"):
                    okv = False
                    break
                edb_w[name] = rv["answer"]
            ra = run.bridge.job({"job": "exec_ir", "ir": after_ir, "edb": edb_w}) if okv else {"ok": False}
            wa = P.answer_set(ra["answer"]) if ra.get("ok") else None
            run.stats.replayed += 1
            if wa != wit_before:
                run.decided += 1
                run.nontrivial += 1
                run.record({"plan_from": label, "pass": ps, "verdict": "witness-differs", "edb": wit,
                            "before_answer": sorted(wit_before), "after_answer": sorted(wa) if wa is not None else ra.get("error")})
                run.violation("pass-" + ps + "-" + top_shape(ir), f"pass {ps} changes the plan's meaning on a solver-chosen "
                              f"witness database ({label})",
                              {"property": run.prop, "engine": "P", "kind": "rewrite", "pass": ps, "before": ir,
                               "after": after_ir, "views": views, "edb": wit, "before_answer": sorted(wit_before),
                               "after_answer": sorted(wa) if wa is not None else None})
                continue
        t0 = time.time()
        v, cex = run.compare(label, tables, after, before, [], label)
        ms = int((time.time() - t0) * 1000)
        sample = {"plan_from": label, "pass": ps, "rows": n, "verdict": v, "solver_ms": ms}
        if v == "unknown":
            run.skipped.append({"plan_from": label, "pass": ps, "why": "solver timeout"})
            continue
        run.decided += 1
        if v == "unsat":
            run.nontrivial += 1
            run.record(sample)
            continue
        # replay: execute both plans with the real code generator
        r1 = run.bridge.job({"job": "exec_ir", "ir": ir, "edb": cex})
        edb2 = dict(cex)
        ok_views = True
        for name in sorted(views):
            rv = run.bridge.job({"job": "exec_ir", "ir": views[name], "edb": edb2})
            if not rv.get("ok"):
                ok_views = False
                break
            edb2[name] = rv["answer"]
        r2 = run.bridge.job({"job": "exec_ir", "ir": after_ir, "edb": edb2}) if ok_views else {"ok": False}
        run.stats.replayed += 1
        a1 = P.answer_set(r1["answer"]) if r1.get("ok") else None
        a2 = P.answer_set(r2["answer"]) if r2.get("ok") else None
        sample.update({"edb": cex, "before_answer": sorted(a1) if a1 is not None else r1.get("error"),
                       "after_answer": sorted(a2) if a2 is not None else r2.get("error"), "before": ir, "after": after_ir})
        run.record(sample)
        if a1 != a2:
            run.nontrivial += 1
            run.violation("pass-" + ps + "-" + top_shape(ir), f"pass {ps} changes the plan's meaning ({label})",
                          {"property": run.prop, "engine": "P", "kind": "rewrite", "pass": ps, "before": ir,
                           "after": after_ir, "views": views, "edb": cex, "before_answer": sorted(a1) if a1 is not None else None,
                           "after_answer": sorted(a2) if a2 is not None else None})
        else:
            run.stats.model_mismatches.append({"pass": ps, "edb": cex, "note": "sat not reproduced", "before": ir,
                                               "after": after_ir})


def eval_views(views, env):
    """Evaluate shared views in dependency order into a copy of env."""
    env2 = dict(env)
    pending = dict(views)
    guard = 0
    while pending and guard < 20:
        guard += 1
        for name in sorted(pending):
            need = scans_of(pending[name], {})
            if all((r in env2) or (r not in views) for r in need):
                env2[name] = E.distinct(E.PlanEval(env2).ev(pending[name]))
                del pending[name]
                break
    return env2


def check_share_all(run, irs, heads, label):
    """Cross-rule subplan sharing: all heads of a program are handed to SubplanSharer together."""
    rep = run.bridge.job({"job": "share_all", "irs": irs, "derived": heads})
    if not rep.get("ok"):
        if rep.get("panic") or rep.get("crash"):
            run.violation("pass-panic-share_subplans", f"share_subplans panics ({label})",
                          {"property": run.prop, "engine": "P", "kind": "rewrite-panic", "pass": "share_subplans", "ir": irs[0]})
        return
    views = rep.get("views") or {}
    if not views:
        return
    env_ar = {}
    for ir in irs:
        scans_of(ir, env_ar)
    if untyped_derived(env_ar):
        run.stats.note_unsupported("derived relation next to string-typed columns (free-table mode)")
        return
    n = run.cfg["rows"]
    S.reset()
    tables = {rel: E.sym_table(rel, ar, n) for rel, ar in env_ar.items()}
    try:
        env2 = eval_views(views, tables)
    except E.Unsupported as ex:
        run.stats.note_unsupported(str(ex))
        return
    for head, ir, new_ir in zip(heads, irs, rep["irs"]):
        if json.dumps(ir, sort_keys=True) == json.dumps(new_ir, sort_keys=True):
            continue
        try:
            before = E.distinct(E.PlanEval(tables).ev(ir))
            after = E.distinct(E.PlanEval(env2).ev(new_ir))
        except E.Unsupported as ex:
            run.stats.note_unsupported(str(ex))
            continue
        v, cex = run.compare(label, tables, after, before, [], label)
        if v == "unknown":
            run.skipped.append({"plan_from": label, "pass": "share_subplans(all heads)", "why": "solver timeout"})
            continue
        run.decided += 1
        sample = {"plan_from": label, "head": head, "pass": "share_subplans(all heads)", "rows": n, "verdict": v,
                  "views": sorted(views)}
        if v == "unsat":
            run.nontrivial += 1
            run.record(sample)
            continue
        r1 = run.bridge.job({"job": "exec_ir", "ir": ir, "edb": cex})
        edb2 = dict(cex)
        okv = True
        done = set()
        for _ in range(len(views) + 1):
            for name in sorted(views):
                if name in done:
                    continue
                need = scans_of(views[name], {})
                if all((r in edb2) or (r not in views) for r in need):
                    rv = run.bridge.job({"job": "exec_ir", "ir": views[name], "edb": edb2})
                    if not rv.get("ok"):
                        okv = False
                    edb2[name] = rv.get("answer", [])
                    done.add(name)
        r2 = run.bridge.job({"job": "exec_ir", "ir": new_ir, "edb": edb2}) if okv else {"ok": False}
        run.stats.replayed += 1
        a1 = P.answer_set(r1["answer"]) if r1.get("ok") else None
        a2 = P.answer_set(r2["answer"]) if r2.get("ok") else None
        sample.update({"edb": cex, "before_answer": sorted(a1) if a1 is not None else None,
                       "after_answer": sorted(a2) if a2 is not None else None})
        run.record(sample)
        if a1 != a2:
            run.nontrivial += 1
            run.violation("pass-share_subplans-cross-rule", f"cross-rule subplan sharing changes head {head} ({label})",
                          {"property": run.prop, "engine": "P", "kind": "share_all", "irs": irs, "heads": heads,
                           "head": head, "edb": cex, "before_answer": sorted(a1) if a1 is not None else None,
                           "after_answer": sorted(a2) if a2 is not None else None})
        else:
            run.stats.model_mismatches.append({"pass": "share_all", "edb": cex, "note": "sat not reproduced", "head": head})


def top_shape(ir):
    s = ir["op"]
    for k in ("input", "left"):
        if k in ir and isinstance(ir[k], dict):
            return s + ">" + ir[k]["op"]
    return s


def run_c05(run):
    progs = corpus(run, ["flat", "shared", "twins", "agg", "rec", "twins", "flat", "shared"], with_templates=True)
    seen = set()
    for program, kind in progs:
        if run.out_of_time():
            break
        text = R.render(program)
        rep = run.bridge.job({"job": "build", "program": text, "edb": P.witness_edb(R.edb_arity(program))})
        if not rep.get("ok"):
            run.stats.engine_errors[rep.get("error", "?")[:60]] = 1
            continue
        run.programs += 1
        if len(rep["irs"]) > 1:
            check_share_all(run, rep["irs"], rep["heads"], f"{text!r}")
            # and as the pipeline does it: after join planning
            pj = [run.bridge.job({"job": "rewrite", "ir": ir, "pass": "plan_joins"}) for ir in rep["irs"]]
            if all(x.get("ok") for x in pj):
                check_share_all(run, [x["ir"] for x in pj], rep["heads"], f"{text!r} after plan_joins")
        for head, ir in zip(rep["heads"], rep["irs"]):
            h = json.dumps(ir, sort_keys=True)
            if h in seen:
                continue
            seen.add(h)
            check_rewrite(run, ir, f"{text!r} head {head}", PASSES, rep["heads"])
            # second-stage input: what the optimizer sees after join planning
            r2 = run.bridge.job({"job": "rewrite", "ir": ir, "pass": "plan_joins"})
            if r2.get("ok") and json.dumps(r2["ir"], sort_keys=True) != h:
                check_rewrite(run, r2["ir"], f"{text!r} head {head} after plan_joins", ["optimize", "specialize"], rep["heads"])
            r3 = run.bridge.job({"job": "rewrite", "ir": ir, "pass": "specialize"})
            if r3.get("ok") and json.dumps(r3["ir"], sort_keys=True) != h:
                check_rewrite(run, r3["ir"], f"{text!r} head {head} after specialize", ["optimize"], rep["heads"])
    # synthetic well-formed plan trees for the name-agnostic passes (optimizer fixpoint and its rules)
    pg = G.PlanGen(vc.seed() * 31 + 7)
    n_syn = 30 if run.tier == "quick" else 400
    syn_passes = [p for p in PASSES if p not in ("plan_joins", "share_subplans")]
    made = 0
    for _ in range(n_syn * 3):
        if made >= n_syn or run.out_of_time():
            break
        ir, w = pg.tree(run.cfg.get("plan_depth", 3))
        if ir["op"] == "Scan":
            continue
        h = json.dumps(ir, sort_keys=True)
        if h in seen:
            continue
        seen.add(h)
        made += 1
        check_rewrite(run, ir, f"synthetic plan #{made}", syn_passes, [])
    # leaf index kernel of the join fusion, decided by Kani over all indices (engine K)
    import kcheck
    from kspecs import SPECS
    kr = kcheck.run_harnesses("C05", SPECS["C05K"], run.tier, build=False)
    run.violations.extend(kr["violations"])
    run.known.extend(kr["known"])
    run.inconclusive.extend(kr["inconclusive"])
    return run.finish("translation_validation",
                      {"explanation": "each real rewrite pass is applied through its entry point to plans built by the real IR "
                                      "builder; before/after plans are compared as relations over symbolic tables",
                       "passes": PASSES,
                       "kani_kernel": {"functions_encoded": SPECS["C05K"]["functions"], "bounds": SPECS["C05K"]["bounds"],
                                       "harnesses": kr["samples"], "cbmc_checks": kr["checks_total"],
                                       "solver_s": round(kr["solver_s"], 1)}},
                      ASSUME_P + ["derived relations scanned by a plan are free symbolic tables (any content)"])


def run_property(prop, tier):
    ok, out, _ = ke.build_native()
    if tier == "thorough" and P.CROSSCHECK_BUDGET["n"] == 0:
        P.CROSSCHECK_BUDGET["n"] = 40
    run = Run(prop, tier)
    if not ok:
        run.inconclusive.append("native build of /repo (feature verif-hooks) failed: " + out[-400:].replace("\n", " | "))
        return run.finish("translation_validation", {}, ASSUME_P)
    return {"C01": run_c01, "C02": run_c02, "C03": run_c03, "C04": run_c04, "C05": run_c05, "C06": run_c06}[prop](run)
