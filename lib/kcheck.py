"""Generic driver for engine-K properties (Kani harnesses over the real functions)."""
import json, os, time
import vcommon as vc
import kengine as ke
from kspecs import SPECS


def finding_key(prop, harness, law):
    """Role key of a violation: property + harness group + violated law (not the concrete values)."""
    import re
    grp = re.sub(r"_\d+$", "", harness)
    return (grp + ":" + re.sub(r"[^a-z0-9]+", "-", law.lower()).strip("-"))[:120]


def run_harnesses(prop, spec, tier, build=True):
    """Run the spec's harnesses; returns dict with violations/known/inconclusive/coverage pieces."""
    harnesses = list(spec["quick"]) + (list(spec.get("thorough", [])) if tier == "thorough" else [])
    violations, known, inconclusive = [], [], []
    ok, out = True, ""
    if build:
        ok, out, _ = ke.build_native()
    if not ok:
        inconclusive.append("native build of /repo (feature verif-hooks) failed: " + out[-400:].replace("\n", " | "))
    results, meta = ({}, {"wall_s": 0, "compile_error": False, "rc": 0, "tail": ""})
    if ok:
        timeout = spec.get("timeout_thorough", 7200) if tier == "thorough" else spec.get("timeout_quick", 1800)
        per = spec.get("per_harness_thorough", 2400) if tier == "thorough" else spec.get("per_harness_quick", 900)
        results, meta = ke.run_kani(harnesses, timeout_s=timeout, per_harness_s=per, jobs=spec.get("jobs", 5),
                                    log_name=f"kani-{prop}-{tier}.log")
        if meta["compile_error"] and not any(r["status"] != "inconclusive" for r in results.values()):
            inconclusive.append("kani could not compile the harness crate against /repo: " +
                                meta["tail"][-400:].replace("\n", " | "))
    samples, decisive, nontrivial, checks_total, solver_s, replays = [], 0, 0, 0, 0.0, 0
    for h in harnesses:
        r = results.get(h)
        if r is None:
            continue
        checks_total += r["checks"]
        solver_s += r["time_s"] or 0.0
        s = {"harness": h, "bound": spec["bounds"].get(h, spec["bounds"].get("*", "")), "verdict": r["status"],
             "cbmc_checks": r["checks"], "covers": f"{r['covers_sat']}/{r['covers_total']}", "solver_s": r["time_s"]}
        if r["status"] == "pass":
            decisive += 1
            nontrivial += 1
        elif r["status"] == "fail":
            decisive += 1
            nontrivial += 1
            reps = ke.classify_and_replay(prop, r)
            replays += len(reps)
            if not reps:
                inconclusive.append(f"{h}: FAILED but no concrete playback was produced ({r['failed_checks'][:2]})")
            for rp in reps:
                s.setdefault("counterexamples", []).append({"law": rp["law"], "vals": rp["vals"],
                                                            "native": rp["text"]})
                if rp["reproduced"] is True:
                    key = finding_key(prop, h, rp["law"])
                    f = vc.open_finding_for(prop, key)
                    if f:
                        known.append(f"key={key} {f['what']}")
                    else:
                        violations.append((rp["replay_path"], f"{h}: {rp['law']} (key={key})"))
                elif rp["reproduced"] is False:
                    inconclusive.append(f"{h}: solver counterexample does not reproduce natively "
                                        f"(harness/stub/model problem): {rp['text']}")
                else:
                    inconclusive.append(f"{h}: native replay could not run: {rp['text']}")
        else:
            inconclusive.append(f"{h}: {r['reason']}")
        samples.append(s)
    return {"violations": violations, "known": known, "inconclusive": inconclusive, "samples": samples,
            "nontrivial": nontrivial, "checks_total": checks_total, "solver_s": solver_s, "replays": replays,
            "kani_wall_s": meta["wall_s"]}


def run_property(prop, tier):
    spec = SPECS[prop]
    t0 = time.time()
    r = run_harnesses(prop, spec, tier)
    wall = time.time() - t0
    cov = {
        "evaluations": len(r["samples"]),
        "distinct_nontrivial": r["nontrivial"],
        "rule": "one evaluation = one Kani proof harness (symbolic inputs of the real types, decided by CBMC/cadical over "
                "all values within the stated bound); non-trivial = the harness reached a verdict (SUCCESSFUL with every "
                "kani::cover! vacuity witness SATISFIED, or FAILED with a natively replayed counterexample); a harness "
                "whose cover witnesses are not satisfied is reported as inconclusive, never as passed",
        "samples": r["samples"],
        "exhaustive": False,
        "functions_encoded": spec["functions"],
        "bounds": spec["bounds"],
        "queries_discharged": r["checks_total"],
        "solver_s": round(r["solver_s"], 1),
        "kani_wall_s": round(r["kani_wall_s"], 1),
        "counterexamples_replayed_natively": r["replays"],
        "stubs": spec.get("stubs", []),
        "outside_claim": spec.get("outside", []),
        "known_findings_suppressed": r["known"],
        "inconclusive": r["inconclusive"],
    }
    vc.write_evidence(prop, tier, "model_checking", cov, spec["assumptions"], wall, len(r["violations"]))
    return vc.finish(prop, r["violations"], r["known"], r["inconclusive"])
