"""Generic driver for engine-K properties (Kani harnesses over the real functions)."""
import json, os, time
import vcommon as vc
import kengine as ke
from kspecs import SPECS


def finding_key(prop, harness, law):
    """Role key of a violation: property + harness group + violated law (not the concrete values)."""
    import re
    grp = re.sub(r"_\d+$", "", harness)
    return (grp + ":" + re.sub(r"[^a-z0-9]+", "-", law.lower()).strip("-"))[:120]


def run_harnesses(prop, spec, tier, build=True):
    """Run the spec's harnesses; returns dict with violations/known/inconclusive/coverage pieces."""
    harnesses = list(spec["quick"]) + (list(spec.get("thorough", [])) if tier == "thorough" else [])
    violations, known, inconclusive = [], [], []
    ok, out = True, ""
    if build:
        ok, out, _ = ke.build_native()
    if not ok:
        inconclusive.append("native build of /repo (feature verif-hooks) failed: " + out[-400:].replace("\n", " | "))
    results, meta = ({}, {"wall_s": 0, "compile_error": False, "rc": 0, "tail": ""})
    if ok:
        timeout = spec.get("timeout_thorough", 7200) if tier == "thorough" else spec.get("timeout_quick", 1800)
        per = spec.get("per_harness_thorough", 2400) if tier == "thorough" else spec.get("per_harness_quick", 900)
        results, meta = ke.run_kani(harnesses, timeout_s=timeout, per_harness_s=per, jobs=spec.get("jobs", 5),
                                    log_name=f"kani-{prop}-{tier}.log")
        if meta["compile_error"] and not any(r["status"] != "inconclusive" for r in results.values()):
            inconclusive.append("kani could not compile the harness crate against /repo: " +
                                meta["tail"][-400:].replace("\n", " | "))
    samples, decisive, nontrivial, checks_total, solver_s, replays = [], 0, 0, 0, 0.0, 0
    for h in harnesses:
        r = results.get(h)
        if r is None:
            continue
        checks_total += r["checks"]
        solver_s += r["time_s"] or 0.0
        s = {"harness": h, "bound": spec["bounds"].get(h, spec["bounds"].get("*", "")), "verdict": r["status"],
             "cbmc_checks": r["checks"], "covers": f"{r['covers_sat']}/{r['covers_total']}", "solver_s": r["time_s"]}
        if r["status"] == "pass":
            decisive += 1
            nontrivial += 1
        elif r["status"] == "fail":
            decisive += 1
            nontrivial += 1
            reps = ke.classify_and_replay(prop, r)
            replays += len(reps)
            if not reps:
                inconclusive.append(f"{h}: FAILED but no concrete playback was produced ({r['failed_checks'][:2]})")
            for rp in reps:
                s.setdefault("counterexamples", []).append({"law": rp["law"], "vals": rp["vals"],
                                                            "native": rp["text"]})
                if rp["reproduced"] is True:
                    key = finding_key(prop, h, rp["law"])
                    f = vc.open_finding_for(prop, key)
                    if f:
                        known.append(f"key={key} {f['what']}")
                    else:
                        violations.append((rp["replay_path"], f"{h}: {rp['law']} (key={key})"))
                elif rp["reproduced"] is False:
                    inconclusive.append(f"{h}: solver counterexample does not reproduce natively "
                                        f"(harness/stub/model problem): {rp['text']}")
                else:
                    inconclusive.append(f"{h}: native replay could not run: {rp['text']}")
        else:
            inconclusive.append(f"{h}: {r['reason']}")
        samples.append(s)
    return {"violations": violations, "known": known, "inconclusive": inconclusive, "samples": samples,
            "nontrivial": nontrivial, "checks_total": checks_total, "solver_s": solver_s, "replays": replays,
            "kani_wall_s": meta["wall_s"]}


def run_mir_pagination(prop):
    """Engine M (C35): symbolic execution of apply_pagination's MIR, for every length/limit/offset."""
    import sys
    sys.path.insert(0, os.path.join(vc.VERIF, "mir"))
    sys.path.insert(0, os.path.join(vc.VERIF, "p"))
    import mirsym
    import pengine as P
    out = {"violations": [], "known": [], "inconclusive": [], "evidence": {}}
    try:
        path, secs = mirsym.dump_mir()
        text = open(path).read()
    except Exception as ex:
        out["inconclusive"].append(f"MIR dump failed: {str(ex)[-300:]}")
        return out
    b = P.Bridge()

    def native(n, limit, offset):
        j = {"job": "paginate", "len": n}
        if limit is not None:
            j["limit"] = limit
        if offset is not None:
            j["offset"] = offset
        r = b.job(j)
        if not r.get("ok"):
            return "error"
        return "panic" if r.get("panic") else r["rows"]
    try:
        res = mirsym.check_apply_pagination(text, native)
    except Exception as ex:
        out["inconclusive"].append(f"MIR executor cannot handle apply_pagination as compiled now: {ex}")
        b.close()
        return out
    b.close()
    for i, name, got in res["violations"]:
        key = "apply_pagination:" + name.split(" ")[0] + "-" + name.split(" ")[1]
        path = os.path.join(vc.REPLAY, f"{prop}-apply_pagination.json")
        vc.ensure_dirs()
        with open(path, "w") as f:
            json.dump({"property": prop, "engine": "M", "function": "apply_pagination", "inputs": i,
                       "native_result": got, "obligation": name}, f, indent=1)
        fnd = vc.open_finding_for(prop, key)
        if fnd:
            out["known"].append(f"key={key} {fnd['what']}")
        else:
            out["violations"].append((path, f"apply_pagination({i}) -> {got}: {name} (key={key})"))
    out["inconclusive"].extend(res["inconclusive"])
    out["evidence"] = {"function": res["function"], "mir_blocks": res["blocks"], "paths": res["paths"],
                       "obligations": res["results"], "translator_validated_on_native_runs": res["translator_validated_on"],
                       "queries": res["queries"], "solver_s": res["solver_s"], "mir_dump_s": round(secs, 1),
                       "bounds": "none on the row count, limit or offset (sequences are views into the input); library calls "
                                 "(Option::unwrap_or, Vec::len/new, Index<RangeFrom>, slice::iter/to_vec, Iterator::take/"
                                 "cloned/collect) are modelled by their documented contract",
                       "regenerated_from": "cargo +nightly check with -Zunpretty=mir on /repo's working tree"}
    return out


def run_mir_bloom(prop):
    """Engine M (C36): inductive symbolic execution of BloomFilter's MIR, for every shape and hash count."""
    import sys
    sys.path.insert(0, os.path.join(vc.VERIF, "mir"))
    sys.path.insert(0, os.path.join(vc.VERIF, "p"))
    import mirsym, mirbv
    import pengine as P
    out = {"violations": [], "known": [], "inconclusive": [], "evidence": {}}
    try:
        path, secs = mirsym.dump_mir()
        text = open(path).read()
    except Exception as ex:
        out["inconclusive"].append(f"MIR dump failed: {str(ex)[-300:]}")
        return out
    b = P.Bridge()
    try:
        res = mirbv.check_bloom(text, b.job)
    except Exception as ex:
        out["inconclusive"].append(f"MIR executor cannot handle BloomFilter as compiled now: {ex}")
        b.close()
        return out
    b.close()
    for n, (ctor, cex, name, found) in enumerate(res["violations"]):
        key = "bloom:" + ctor
        path = os.path.join(vc.REPLAY, f"{prop}-bloom-{ctor}-{n}.json")
        vc.ensure_dirs()
        with open(path, "w") as f:
            json.dump({"property": prop, "engine": "M", "function": "bloom", "ctor": ctor, "shape": cex,
                       "native_result": found, "obligation": name}, f, indent=1)
        fnd = vc.open_finding_for(prop, key)
        if fnd:
            out["known"].append(f"key={key} {fnd['what']}")
        else:
            out["violations"].append((path, f"BloomFilter::{ctor} shape {cex}: key {found.get('fail_key')} -> "
                                            f"{found.get('kind')} (history {found.get('history')}); failed obligation: {name} (key={key})"))
    out["inconclusive"].extend(res["inconclusive"])
    out["evidence"] = {"functions": res["functions"], "constructor_paths": res["shapes"], "obligations": res["results"],
                       "translator_validated_on_native_shapes": res["translator_validated_on"],
                       "queries": res["queries"], "solver_s": res["solver_s"], "mir_dump_s": round(secs, 1),
                       "assumptions": res["assumptions"],
                       "bounds": "none on the number of bits, the number of hash functions, the number of insertions or the "
                                 "keys: one inductive step of each loop is decided for an arbitrary iteration index and an "
                                 "arbitrary bit array, for every shape a constructor path can return; usize/u64 are 64-bit "
                                 "bit-vectors; hashing (DefaultHasher::new, Hash::hash, finish) is uninterpreted",
                       "regenerated_from": "cargo +nightly check with -Zunpretty=mir on /repo's working tree"}
    return out


def run_property(prop, tier):
    spec = SPECS[prop]
    t0 = time.time()
    r = run_harnesses(prop, spec, tier)
    mir = None
    if prop == "C35":
        mir = run_mir_pagination(prop)
        r["violations"].extend(mir["violations"])
        r["known"].extend(mir["known"])
        r["inconclusive"].extend(mir["inconclusive"])
    if prop == "C36":
        mir = run_mir_bloom(prop)
        r["violations"].extend(mir["violations"])
        r["known"].extend(mir["known"])
        r["inconclusive"].extend(mir["inconclusive"])
    wall = time.time() - t0
    cov = {
        "evaluations": len(r["samples"]),
        "distinct_nontrivial": r["nontrivial"],
        "rule": "one evaluation = one Kani proof harness (symbolic inputs of the real types, decided by CBMC/cadical over "
                "all values within the stated bound); non-trivial = the harness reached a verdict (SUCCESSFUL with every "
                "kani::cover! vacuity witness SATISFIED, or FAILED with a natively replayed counterexample); a harness "
                "whose cover witnesses are not satisfied is reported as inconclusive, never as passed",
        "samples": r["samples"],
        "exhaustive": False,
        "functions_encoded": spec["functions"],
        "bounds": spec["bounds"],
        "queries_discharged": r["checks_total"],
        "solver_s": round(r["solver_s"], 1),
        "kani_wall_s": round(r["kani_wall_s"], 1),
        "counterexamples_replayed_natively": r["replays"],
        "stubs": spec.get("stubs", []),
        "outside_claim": spec.get("outside", []),
        "known_findings_suppressed": r["known"],
        "inconclusive": r["inconclusive"],
    }
    if mir is not None:
        cov["mir_symbolic_execution"] = mir["evidence"]
    vc.write_evidence(prop, tier, "model_checking", cov, spec["assumptions"], wall, len(r["violations"]))
    return vc.finish(prop, r["violations"], r["known"], r["inconclusive"])
