"""Generic driver for engine-K properties (Kani harnesses over the real functions)."""
import json, os, time
import vcommon as vc
import kengine as ke
from kspecs import SPECS


def finding_key(prop, harness, law):
    """Role key of a violation: property + harness group + violated law (not the concrete values)."""
    import re
    grp = re.sub(r"_\d+$", "", harness)
    return (grp + ":" + re.sub(r"[^a-z0-9]+", "-", law.lower()).strip("-"))[:120]


def run_property(prop, tier):
    spec = SPECS[prop]
    t0 = time.time()
    harnesses = list(spec["quick"]) + (list(spec.get("thorough", [])) if tier == "thorough" else [])
    violations, known, inconclusive = [], [], []
    ok, out, bsecs = ke.build_native()
    if not ok:
        inconclusive.append("native build of /repo (feature verif-hooks) failed: " + out[-400:].replace("\n", " | "))
    results, meta = ({}, {"wall_s": 0, "compile_error": False, "rc": 0, "tail": ""})
    if ok:
        timeout = spec.get("timeout_thorough", 5400) if tier == "thorough" else spec.get("timeout_quick", 1500)
        results, meta = ke.run_kani(harnesses, timeout_s=timeout, log_name=f"kani-{prop}-{tier}.log")
        if meta["compile_error"] and not any(r["status"] != "inconclusive" for r in results.values()):
            inconclusive.append("kani could not compile the harness crate against /repo: " +
                                meta["tail"][-400:].replace("\n", " | "))
    samples, decisive, nontrivial, checks_total, solver_s, replays = [], 0, 0, 0, 0.0, 0
    for h in harnesses:
        r = results.get(h)
        if r is None:
            continue
        checks_total += r["checks"]
        solver_s += r["time_s"] or 0.0
        s = {"harness": h, "bound": spec["bounds"].get(h, spec["bounds"].get("*", "")), "verdict": r["status"],
             "cbmc_checks": r["checks"], "covers": f"{r['covers_sat']}/{r['covers_total']}", "solver_s": r["time_s"]}
        if r["status"] == "pass":
            decisive += 1
            if r["covers_total"] > 0 and r["covers_sat"] == r["covers_total"]:
                nontrivial += 1
        elif r["status"] == "fail":
            decisive += 1
            reps = ke.classify_and_replay(prop, r)
            replays += len(reps)
            if not reps:
                inconclusive.append(f"{h}: FAILED but no concrete playback was produced ({r['failed_checks'][:2]})")
            for rp in reps:
                s.setdefault("counterexamples", []).append({"law": rp["law"], "vals": rp["vals"],
                                                            "native": rp["text"]})
                if rp["reproduced"] is True:
                    key = finding_key(prop, h, rp["law"])
                    f = vc.open_finding_for(prop, key)
                    if f:
                        known.append(f"key={key} {f['what']}")
                    else:
                        violations.append((rp["replay_path"], f"{h}: {rp['law']} (key={key})"))
                elif rp["reproduced"] is False:
                    inconclusive.append(f"{h}: solver counterexample does not reproduce natively "
                                        f"(harness/stub/model problem): {rp['text']}")
                else:
                    inconclusive.append(f"{h}: native replay could not run: {rp['text']}")
        else:
            inconclusive.append(f"{h}: {r['reason']}")
        samples.append(s)
    wall = time.time() - t0
    cov = {
        "evaluations": len(samples),
        "distinct_nontrivial": nontrivial,
        "rule": "one evaluation = one Kani proof harness (a set of symbolic inputs of the real types, decided by "
                "CBMC/cadical over all values within the stated bound); non-trivial = verdict SUCCESSFUL with every "
                "kani::cover! vacuity witness SATISFIED (the asserted laws are reached with the interesting shapes)",
        "samples": samples,
        "exhaustive": False,
        "functions_encoded": spec["functions"],
        "bounds": spec["bounds"],
        "queries_discharged": checks_total,
        "solver_s": round(solver_s, 1),
        "kani_wall_s": round(meta["wall_s"], 1),
        "counterexamples_replayed_natively": replays,
        "stubs": spec.get("stubs", []),
        "outside_claim": spec.get("outside", []),
        "known_findings_suppressed": known,
        "inconclusive": inconclusive,
    }
    vc.write_evidence(prop, tier, "model_checking", cov, spec["assumptions"], wall, len(violations))
    return vc.finish(prop, violations, known, inconclusive)
