"""Engine K: run Kani/CBMC harnesses over the real inputlayer code and replay counterexamples natively."""
import os, re, time
from vcommon import VERIF, CACHE, REPLAY, run, Lock, ensure_dirs

KANI_DIR = os.path.join(VERIF, "kani")
KANI_TARGET = os.path.join(CACHE, "kani-target")
NATIVE_DIR = os.path.join(VERIF, "native")
NATIVE_TARGET = os.path.join(CACHE, "native-target")


def sync_lock_files():
    import shutil
    for d in (KANI_DIR, NATIVE_DIR):
        src = "/repo/Cargo.lock"
        dst = os.path.join(d, "Cargo.lock")
        if not os.path.exists(dst):
            shutil.copy(src, dst)


def build_native(release=False):
    """(Re)build ilp + ilk-replay against /repo's current working tree."""
    ensure_dirs()
    sync_lock_files()
    cmd = ["cargo", "build", "--offline", "--target-dir", NATIVE_TARGET]
    if release:
        cmd.append("--release")
    with Lock("native-build"):
        rc, out, secs = run(cmd, cwd=NATIVE_DIR, timeout=3600)
    return rc == 0, out, secs


def native_bin(name, release=False):
    return os.path.join(NATIVE_TARGET, "release" if release else "debug", name)


SECTION = re.compile(r"^Checking harness (\S+?)\.\.\.", re.M)


def parse_kani(out):
    """Split Kani output per harness and extract verdicts."""
    res = {}
    starts = [(m.start(), m.group(1)) for m in SECTION.finditer(out)]
    for idx, (pos, name) in enumerate(starts):
        end = starts[idx + 1][0] if idx + 1 < len(starts) else len(out)
        sec = out[pos:end]
        short = name.split("::")[-1]
        r = {"harness": short, "status": "inconclusive", "reason": "", "checks": 0, "failed": 0,
             "failed_checks": [], "covers_sat": 0, "covers_total": 0, "time_s": None, "cex": []}
        m = re.search(r"\*\* (\d+) of (\d+) failed", sec)
        if m:
            r["failed"], r["checks"] = int(m.group(1)), int(m.group(2))
        m = re.search(r"\*\* (\d+) of (\d+) cover properties satisfied", sec)
        if m:
            r["covers_sat"], r["covers_total"] = int(m.group(1)), int(m.group(2))
        m = re.search(r"Verification Time: ([0-9.]+)s", sec)
        if m:
            r["time_s"] = float(m.group(1))
        r["failed_checks"] = re.findall(r"^Failed Checks: (.*)$", sec, re.M)
        # concrete playback blocks
        for blk in re.finditer(r"/// Check for `(\w+)`: (.*?)\n.*?let concrete_vals: Vec<Vec<u8>> = vec!\[(.*?)\n    \];",
                               sec, re.S):
            kind, desc, body = blk.group(1), blk.group(2).strip(), blk.group(3)
            vals = [[int(x) for x in re.findall(r"\d+", v)] for v in re.findall(r"vec!\[([^\]]*)\]", body)]
            r["cex"].append({"kind": kind, "desc": desc.strip('"'), "vals": vals})
        if "VERIFICATION:- SUCCESSFUL" in sec:
            if r["covers_total"] and r["covers_sat"] < r["covers_total"]:
                r["status"], r["reason"] = "inconclusive", "vacuity witness (cover) not satisfied"
            else:
                r["status"] = "pass"
        elif "VERIFICATION:- FAILED" in sec:
            unw = [f for f in r["failed_checks"] if "unwinding assertion" in f]
            real = [f for f in r["failed_checks"] if "unwinding assertion" not in f]
            if real:
                r["status"] = "fail"
            elif unw:
                r["status"], r["reason"] = "inconclusive", "unwinding assertion failed (bound too small)"
            else:
                r["status"], r["reason"] = "inconclusive", "FAILED without failed checks (solver error/OOM?)"
        else:
            r["reason"] = "no verdict (timeout, out of memory or compiler error)"
        res[short] = r
    return res


def run_kani(harnesses, timeout_s=900, mem_gb=24, extra=None, log_name=None):
    """Run the given harnesses in one cargo-kani invocation (serialised by a lock)."""
    ensure_dirs()
    sync_lock_files()
    cmd = ["cargo", "kani", "--target-dir", KANI_TARGET, "-Z", "concrete-playback", "--concrete-playback=print"]
    for h in harnesses:
        cmd += ["--harness", h]
    if extra:
        cmd += extra
    with Lock("cbmc"):
        rc, out, secs = run(cmd, cwd=KANI_DIR, timeout=timeout_s, mem_gb=None)
    if log_name:
        with open(os.path.join(CACHE, log_name), "w") as f:
            f.write(out)
    res = parse_kani(out)
    for h in harnesses:
        if h not in res:
            reason = "timeout" if rc == -9 else "harness did not run (compile error?)"
            res[h] = {"harness": h, "status": "inconclusive", "reason": reason, "checks": 0, "failed": 0,
                      "failed_checks": [], "covers_sat": 0, "covers_total": 0, "time_s": None, "cex": []}
    compile_error = ("error: could not compile" in out) or ("error[E" in out)
    return res, {"rc": rc, "wall_s": secs, "compile_error": compile_error, "tail": out[-3000:]}


def replay_native(harness, vals):
    """Run the harness body natively on the counterexample. Returns (reproduced: bool|None, text)."""
    arg = ";".join(",".join(str(b) for b in v) for v in vals)
    rc, out, _ = run([native_bin("ilk-replay"), harness, arg], timeout=120)
    out = out.strip()
    if rc == 1:
        return True, out
    if rc == 0:
        return False, out
    return None, out


def classify_and_replay(prop, r):
    """For a failed harness: replay every assertion counterexample natively.
    Returns list of dicts {harness, law, vals, reproduced, text, replay_path}."""
    out = []
    for c in r["cex"]:
        if c["kind"] == "cover":
            continue
        rep, text = replay_native(r["harness"], c["vals"])
        law = text.replace("REPLAY violated: ", "") if rep else c["desc"]
        path = os.path.join(REPLAY, f"{prop}-{r['harness']}.json")
        import json
        with open(path, "w") as f:
            json.dump({"property": prop, "engine": "K", "harness": r["harness"], "kani_check": c["desc"],
                       "vals": c["vals"], "native_replay": text,
                       "replay_cmd": f"{native_bin('ilk-replay')} {r['harness']} '" +
                                     ";".join(",".join(str(b) for b in v) for v in c["vals"]) + "'"}, f, indent=1)
        out.append({"harness": r["harness"], "law": law, "vals": c["vals"], "reproduced": rep, "text": text,
                    "replay_path": path})
    return out
