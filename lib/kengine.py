"""Engine K: run Kani/CBMC harnesses over the real inputlayer code and replay counterexamples natively."""
import os, re, time
from vcommon import VERIF, CACHE, REPLAY, run, Lock, ensure_dirs

KANI_DIR = os.path.join(VERIF, "kani")
KANI_TARGET = os.path.join(CACHE, "kani-target")
NATIVE_DIR = os.path.join(VERIF, "native")
NATIVE_TARGET = os.path.join(CACHE, "native-target")


def sync_lock_files():
    import shutil
    for d in (KANI_DIR, NATIVE_DIR):
        src = "/repo/Cargo.lock"
        dst = os.path.join(d, "Cargo.lock")
        if not os.path.exists(dst):
            shutil.copy(src, dst)


def build_native(release=False):
    """(Re)build ilp + ilk-replay against /repo's current working tree."""
    ensure_dirs()
    sync_lock_files()
    cmd = ["cargo", "build", "--offline", "--target-dir", NATIVE_TARGET]
    if release:
        cmd.append("--release")
    with Lock("native-build"):
        rc, out, secs = run(cmd, cwd=NATIVE_DIR, timeout=3600)
    return rc == 0, out, secs


def native_bin(name, release=False):
    return os.path.join(NATIVE_TARGET, "release" if release else "debug", name)


SECTION = re.compile(r"^Checking harness (\S+?)\.\.\.", re.M)


def _verdict(sec, short):
    r = {"harness": short, "status": "inconclusive", "reason": "", "checks": 0, "failed": 0,
         "failed_checks": [], "covers_sat": 0, "covers_total": 0, "time_s": None, "cex": []}
    m = re.search(r"\*\* (\d+) of (\d+) failed", sec)
    if m:
        r["failed"], r["checks"] = int(m.group(1)), int(m.group(2))
    m = re.search(r"\*\* (\d+) of (\d+) cover properties satisfied", sec)
    if m:
        r["covers_sat"], r["covers_total"] = int(m.group(1)), int(m.group(2))
    m = re.search(r"Verification Time: ([0-9.]+)s", sec)
    if m:
        r["time_s"] = float(m.group(1))
    r["failed_checks"] = re.findall(r"^Failed Checks: (.*)$", sec, re.M)
    for blk in re.finditer(r"/// Check for `(\w+)`: (.*?)\n.*?let concrete_vals: Vec<Vec<u8>> = vec!\[(.*?)\n    \];",
                           sec, re.S):
        kind, desc, body = blk.group(1), blk.group(2).strip(), blk.group(3)
        vals = [[int(x) for x in re.findall(r"\d+", v)] for v in re.findall(r"vec!\[([^\]]*)\]", body)]
        r["cex"].append({"kind": kind, "desc": desc.strip('"'), "vals": vals})
    if "VERIFICATION:- SUCCESSFUL" in sec:
        if r["covers_total"] and r["covers_sat"] < r["covers_total"]:
            r["status"], r["reason"] = "inconclusive", "vacuity witness (cover) not satisfied"
        else:
            r["status"] = "pass"
    elif "CBMC timed out" in sec:
        r["reason"] = "CBMC timed out (per-harness cap)"
    elif "VERIFICATION:- FAILED" in sec:
        unw = [f for f in r["failed_checks"] if "unwinding assertion" in f]
        real = [f for f in r["failed_checks"] if "unwinding assertion" not in f]
        if real:
            r["status"] = "fail"
        elif unw:
            r["status"], r["reason"] = "inconclusive", "unwinding assertion failed (bound too small)"
        else:
            r["status"], r["reason"] = "inconclusive", "FAILED without failed checks (solver error/OOM?)"
    else:
        r["reason"] = "no verdict (timeout, out of memory or compiler error)"
    return r


def parse_kani(out):
    """Sequential (regular) output: split per harness."""
    res = {}
    starts = [(m.start(), m.group(1)) for m in SECTION.finditer(out)]
    for idx, (pos, name) in enumerate(starts):
        end = starts[idx + 1][0] if idx + 1 < len(starts) else len(out)
        short = name.split("::")[-1]
        res[short] = _verdict(out[pos:end], short)
    return res


def parse_kani_parallel(out):
    """`-j N --output-format terse` output: result blocks are tagged with the worker thread; the harness a
    thread is working on is the last `Thread N: Checking harness X...` line of that thread."""
    cur, bufs, tgt = {}, {}, None
    for line in out.splitlines(True):
        m = re.match(r"Thread (\d+): Checking harness (\S+?)\.\.\.", line)
        if m:
            cur[m.group(1)] = m.group(2).split("::")[-1]
            bufs.setdefault(cur[m.group(1)], [])
            continue
        m = re.match(r"Thread (\d+): *$", line)
        if m:
            tgt = cur.get(m.group(1))
            continue
        if tgt is not None:
            bufs.setdefault(tgt, []).append(line)
    return {h: _verdict("".join(b), h) for h, b in bufs.items()}


def _blank(h, reason):
    return {"harness": h, "status": "inconclusive", "reason": reason, "checks": 0, "failed": 0,
            "failed_checks": [], "covers_sat": 0, "covers_total": 0, "time_s": None, "cex": []}


def run_kani(harnesses, timeout_s=900, per_harness_s=600, jobs=5, log_name=None):
    """Phase 1: all harnesses in parallel (`-j`, verdicts only).  Phase 2: every harness that failed is re-run
    alone with concrete playback so that its counterexample can be replayed natively."""
    ensure_dirs()
    sync_lock_files()
    base = ["cargo", "kani", "--target-dir", KANI_TARGET]
    cmd = base + ["-Z", "unstable-options", "--harness-timeout", f"{int(per_harness_s)}s", "-j", str(jobs),
                  "--output-format", "terse"]
    for h in harnesses:
        cmd += ["--harness", h]
    log = ""
    with Lock("cbmc"):
        rc, out, secs = run(cmd, cwd=KANI_DIR, timeout=timeout_s)
        log += out
        res = parse_kani_parallel(out)
        compile_error = ("error: could not compile" in out) or ("error[E" in out)
        failed = [h for h in harnesses if res.get(h, {}).get("status") == "fail"]
        if failed and not compile_error:
            cmd2 = base + ["-Z", "concrete-playback", "--concrete-playback=print"]
            for h in failed:
                cmd2 += ["--harness", h]
            rc2, out2, secs2 = run(cmd2, cwd=KANI_DIR, timeout=max(300, per_harness_s * len(failed)))
            log += "\n===== phase 2 (concrete playback) =====\n" + out2
            secs += secs2
            res2 = parse_kani(out2)
            for h in failed:
                if h in res2 and res2[h]["status"] == "fail":
                    res[h] = res2[h]
    if log_name:
        with open(os.path.join(CACHE, log_name), "w") as f:
            f.write(log)
    for h in harnesses:
        if h not in res:
            res[h] = _blank(h, "timeout" if rc == -9 else "harness did not run (compile error?)")
    return res, {"rc": rc, "wall_s": secs, "compile_error": compile_error, "tail": log[-3000:]}


def replay_native(harness, vals):
    """Run the harness body natively on the counterexample. Returns (reproduced: bool|None, text)."""
    arg = ";".join(",".join(str(b) for b in v) for v in vals)
    rc, out, _ = run([native_bin("ilk-replay"), harness, arg], timeout=120)
    out = out.strip()
    if rc == 1:
        return True, out
    if rc == 0:
        return False, out
    return None, out


def classify_and_replay(prop, r):
    """For a failed harness: replay every assertion counterexample natively.
    Returns list of dicts {harness, law, vals, reproduced, text, replay_path}."""
    out = []
    for c in r["cex"]:
        if c["kind"] == "cover":
            continue
        rep, text = replay_native(r["harness"], c["vals"])
        law = text.replace("REPLAY violated: ", "") if rep else c["desc"]
        path = os.path.join(REPLAY, f"{prop}-{r['harness']}.json")
        import json
        with open(path, "w") as f:
            json.dump({"property": prop, "engine": "K", "harness": r["harness"], "kani_check": c["desc"],
                       "vals": c["vals"], "native_replay": text,
                       "replay_cmd": f"{native_bin('ilk-replay')} {r['harness']} '" +
                                     ";".join(",".join(str(b) for b in v) for v in c["vals"]) + "'"}, f, indent=1)
        out.append({"harness": r["harness"], "law": law, "vals": c["vals"], "reproduced": rep, "text": text,
                    "replay_path": path})
    return out
