"""Per-property harness lists, bounds and trusted base for engine K."""

SPECS = {
    "C31": {
        "quick": ["c31_scalar_pair", "c31_scalar_triple", "c31_float_pair", "c31_float_triple",
                  "c31_string_pair", "c31_tuple_pair"],
        "thorough": ["c31_string_scalar", "c31_vector_pair", "c31_vector8_pair"],
        "functions": ["<inputlayer::Value as Ord>::cmp", "<Value as PartialOrd>::partial_cmp", "<Value as PartialEq>::eq",
                      "<Value as Hash>::hash", "<Tuple as Ord>::cmp", "<Tuple as PartialEq>::eq", "<Tuple as Hash>::hash"],
        "bounds": {
            "*": "scalars: all 6 scalar kinds x full-width payloads (every i32/i64/f64 bit pattern); pairs and triples",
            "c31_string_pair": "ASCII strings of length <= 2",
            "c31_string_scalar": "ASCII string (len <= 2) x two arbitrary scalars, all orderings of the triple",
            "c31_vector_pair": "f32 vectors of length <= 2, every f32 bit pattern",
            "c31_vector8_pair": "i8 vectors of length <= 2",
            "c31_tuple_pair": "tuples of arity <= 2 over arbitrary scalars",
        },
        "assumptions": ["Kani 0.68 / CBMC 6.11 model of rustc MIR for the dev profile", "unwinding assertions on",
                        "hash law checked on the byte stream fed to the Hasher (recording hasher), which implies equal "
                        "hashes for every Hasher"],
        "outside": ["strings longer than 2 bytes, vectors longer than 2, tuples wider than 2 (uniform per-element "
                    "comparison; an argument, not a solver verdict)", "consolidate_to_current (sort+merge over Vec<Update>: "
                    "CBMC out of memory at 2 updates)"],
    },
    "C35": {
        "quick": ["c35_pair", "c35_triple", "c35_num_triple"],
        "thorough": [],
        "functions": ["inputlayer::protocol::handler::compare_wire_values", "wire_value_type_rank"],
        "bounds": {"*": "Option<&WireValue>: absent, Null, Int32, Int64, Float64 (every bit pattern), Bool, Timestamp, "
                        "String in {\"a\",\"b\"}, empty Vector/VectorInt8/Bytes; all pairs and triples"},
        "assumptions": ["Kani/CBMC model of dev-profile MIR", "a comparator that is a total preorder makes slice::sort_by "
                        "total and order-correct; Asc/Desc reversal and lexicographic composition preserve the contract"],
        "outside": ["sort_rows/apply_pagination over Vec<WireTuple> (not tractable under CBMC)", "total_count",
                    "strings longer than 1 byte (String::cmp is std)"],
    },
    "C28": {
        "quick": ["c28_meta", "c28_stmt"],
        "thorough": [],
        "functions": ["inputlayer::auth::authorize_statement", "authorize_non_admin", "authorize_non_admin_meta",
                      "authorize_kg_operation", "authorize_kg_editor", "authorize_kg_viewer"],
        "bounds": {"*": "every Statement variant (10 non-meta + all 50 MetaCommand variants) x a payload bit "
                        "(name in {\"x\", \"_internal\"}); all 3 KG roles x all 3 global roles"},
        "assumptions": ["oracle = classification of statement kinds into Mutating / AdminOnly / Other written from the "
                        "Statement and MetaCommand documentation comments (kani/src/c28.rs classify*, exhaustive matches)"],
        "outside": ["how the handler combines the two gates (C27, C29)", "payloads other than the name bit"],
    },
}
