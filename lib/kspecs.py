"""Per-property harness lists, bounds and trusted base for engine K."""

SPECS = {
    "C31": {
        "quick": ["c31_scalar_pair", "c31_scalar_triple", "c31_float_pair", "c31_float_triple",
                  "c31_tuple1_pair", "c31_tuple12_pair", "c31_vector_pair", "c31_vector8_pair",
                  "c31_kind_pair", "c31_kind_triple"],
        "thorough": ["c31_string_pair", "c31_string_scalar", "c31_tuple2_pair"],
        "functions": ["<inputlayer::Value as Ord>::cmp", "<Value as PartialOrd>::partial_cmp", "<Value as PartialEq>::eq",
                      "<Value as Hash>::hash", "<Tuple as Ord>::cmp", "<Tuple as PartialEq>::eq", "<Tuple as Hash>::hash"],
        "bounds": {
            "*": "scalars: all 6 scalar kinds x full-width payloads (every i32/i64/f64 bit pattern); pairs and triples",
            "c31_kind_pair": "two values of any of the nine kinds (scalars full width; string in {a,b}, f32 vector in {[],[0.5]}, i8 vector in {[],[1]})",
            "c31_kind_triple": "three values of any of the nine kinds (same payload domains): transitivity across kinds",
            "c31_string_pair": "ASCII strings of length <= 2",
            "c31_string_scalar": "ASCII string (len <= 2) x two arbitrary scalars, all orderings of the triple",
            "c31_vector_pair": "f32 vectors of length <= 2, every f32 bit pattern",
            "c31_vector8_pair": "i8 vectors of length <= 2",
            "c31_tuple1_pair": "two tuples of arity 1 over arbitrary scalars",
            "c31_tuple2_pair": "two tuples of arity 2 over arbitrary scalars",
            "c31_tuple12_pair": "a tuple of arity 1 vs a tuple of arity 2 over arbitrary scalars",
        },
        "assumptions": ["Kani 0.68 / CBMC 6.11 model of rustc MIR for the dev profile", "unwinding assertions on",
                        "hash law checked on the byte stream fed to the Hasher (recording hasher), which implies equal "
                        "hashes for every Hasher"],
        "outside": ["strings longer than 2 bytes, vectors longer than 2, tuples wider than 2 (uniform per-element "
                    "comparison; an argument, not a solver verdict)", "consolidate_to_current (sort+merge over Vec<Update>: "
                    "CBMC out of memory at 2 updates)"],
    },
    "C35": {
        "quick": ["c35_pair", "c35_triple", "c35_num_triple", "c35_sort2"],
        "thorough": [],
        "functions": ["inputlayer::protocol::handler::compare_wire_values", "wire_value_type_rank", "cmp_f64_for_sort",
                      "cmp_i64_f64", "sort_rows (two rows)"],
        "bounds": {"*": "Option<&WireValue>: absent, Null, Int32, Int64, Float64 (every bit pattern), Bool, Timestamp, "
                        "String in {\"a\",\"b\"}, empty Vector/VectorInt8/Bytes; all pairs and triples",
                   "c35_num_triple": "triples over Int64 / Float64 (every bit pattern)",
                   "c35_sort2": "sort_rows on two one-column rows with arbitrary Int64/Float64 values, both directions: "
                                "no panic, output ordered and a permutation of the input"},
        "assumptions": ["Kani/CBMC model of dev-profile MIR", "a comparator that is a total preorder makes slice::sort_by "
                        "total and order-correct; Asc/Desc reversal and lexicographic composition preserve the contract"],
        "outside": ["sort_rows on more than two rows; apply_pagination (three concrete rows with symbolic limit/offset: CBMC "
                    "timed out at 900 s) - the slice arithmetic of pagination is not decided", "total_count",
                    "strings longer than 1 byte (String::cmp is std)"],
    },
    "C28": {
        "quick": ["c28_meta", "c28_stmt"],
        "thorough": [],
        "functions": ["inputlayer::auth::authorize_statement", "authorize_non_admin", "authorize_non_admin_meta",
                      "authorize_kg_operation", "authorize_kg_editor", "authorize_kg_viewer"],
        "bounds": {"*": "every Statement variant (10 non-meta + all 50 MetaCommand variants) x a payload bit "
                        "(name in {\"x\", \"_internal\"}); all 3 KG roles x all 3 global roles"},
        "assumptions": ["oracle = classification of statement kinds into Mutating / AdminOnly / Other written from the "
                        "Statement and MetaCommand documentation comments (kani/src/c28.rs classify*, exhaustive matches)"],
        "outside": ["how the handler combines the two gates (C27, C29)", "payloads other than the name bit"],
    },
    "C26": {
        "quick": ["c26_hamming", "c26_probes_h0_p3", "c26_probes_h1_p4", "c26_probes_h2_p0", "c26_probes_h2_p8",
                  "c26_probes_h3_p8", "c26_probes_h4_p16", "c26_probes_h62_p3", "c26_probes_h64_p3",
                  "c26_float_mismatch", "c26_int8_dist3", "c26_int8_euclid1", "c26_float_manhattan1", "c26_float_euclid1",
                  "c26_time_arith", "c26_time_cmp", "c26_within_last", "c26_intervals", "c26_decay_linear", "c26_quant_sym1"],
        "thorough": ["c26_float_manhattan2"],
        "functions": ["inputlayer::vector_ops::hamming_distance", "lsh_probes", "euclidean_distance_squared",
                      "manhattan_distance", "dot_product", "manhattan_distance_int8", "dot_product_int8",
                      "euclidean_distance_int8", "inputlayer::temporal_ops::time_diff", "time_add", "time_sub",
                      "interval_duration", "time_before", "time_after", "time_between", "point_in_interval",
                      "within_last", "intervals_overlap", "interval_contains", "time_decay_linear", "inputlayer::vector_ops::quantize_vector_symmetric"],
        "bounds": {
            "*": "see harness",
            "c26_quant_sym1": "quantize_vector_symmetric on a 1-component vector, every finite f32: non-zero -> +/-127, zero -> 0",
            "c26_time_arith": "every pair of i64 (result = exact i128 result clamped to i64)",
            "c26_time_cmp": "every triple of i64",
            "c26_within_last": "every triple of i64 (timestamp, now, window)",
            "c26_intervals": "every 4 i64 endpoints and every i64 probe point (point-set meaning of closed intervals)",
            "c26_decay_linear": "every triple of i64; range [0,1], weight 1 for current/future, 0 beyond twice the max age",
            "c26_hamming": "all pairs of i64",
            "c26_probes_h0_p3": "every i64 bucket; hyperplanes=0, probes=3",
            "c26_probes_h1_p4": "every i64 bucket; hyperplanes=1, probes=4",
            "c26_probes_h2_p0": "every i64 bucket; hyperplanes=2, probes=0",
            "c26_probes_h2_p8": "every i64 bucket; hyperplanes=2, probes=8 (more than exist)",
            "c26_probes_h3_p8": "every i64 bucket; hyperplanes=3, probes=8",
            "c26_probes_h4_p16": "every i64 bucket; hyperplanes=4, probes=16",
            "c26_probes_h62_p3": "every i64 bucket; hyperplanes=62, probes=3",
            "c26_probes_h64_p3": "every i64 bucket; hyperplanes=64 (clamped to 62), probes=3",
            "c26_float_mismatch": "dimension mismatch 2 vs 1, every f32 bit pattern",
            "c26_int8_dist3": "int8 vectors of dimension 3, every i8",
            "c26_int8_euclid1": "int8 vectors of dimension 1, every i8",
            "c26_float_manhattan1": "f32 vectors of dimension 1, every finite f32",
            "c26_float_manhattan2": "f32 vectors of dimension 2, every finite f32",
            "c26_float_euclid1": "f32 vectors of dimension 1, every finite f32 (non-negativity, zero on identical)",
        },
        "assumptions": ["CBMC's IEEE-754 float model", "finite inputs for the float kernels (NaN/inf are outside)"],
        "outside": ["cosine distances (sqrt and division)", "symmetry of the squared euclidean / dot product on floats "
                    "(multiplier equivalence: CBMC does not finish)", "dimensions above 3", "quantize/dequantize beyond the 1-component symmetric kernel (float "
                    "division and rounding on 2+ components: CBMC does not finish within 900 s)",
                    "LSH bucket determinism under hyperplane-cache clear/resize/eviction and concurrent use (global "
                    "RwLock<HashMap> + threads: not encodable)", "time_decay (powf) and time_now (clock)",
                    "monotonicity of time_decay_linear in the age (two float divisions compared)"],
    },
    "C36": {
        "quick": ["c36_bloom_0_0", "c36_bloom_64_2", "c36_bloom_65_1"],
        "thorough": ["c36_bloom_1000_2"],
        "functions": ["inputlayer::bloom_filter::BloomFilter::with_params", "insert", "might_contain", "clear", "len",
                      "hash_pair (real std DefaultHasher = SipHash-1-3)", "get_bit_index"],
        "bounds": {
            "c36_bloom_0_0": "with_params(0,0) (clamped to 64 bits / 1 hash), one arbitrary u64 key, clear, re-insert",
            "c36_bloom_64_2": "with_params(64,2), two arbitrary u64 keys, clear, re-insert",
            "c36_bloom_65_1": "with_params(65,1) (rounded to 128 bits), two arbitrary u64 keys",
            "c36_bloom_1000_2": "with_params(1000,2), one arbitrary u64 key",
        },
        "assumptions": ["keys are #[derive(Hash)] wrappers of a u64 (one 8-byte write into the real SipHash)"],
        "outside": ["Kani part: hash counts above 2 (CBMC timed out at 900 s for k=3 and k=7) and BloomFilter::new "
                    "(f64::ln) - both are covered by the MIR part (engine M), which abstracts the hash function instead: "
                    "every shape with_params/new can return, every hash count, any number of insertions",
                    "HashIndex (HashMap<Tuple, Vec<Tuple>>: a single HashMap insert does not finish under CBMC); its "
                    "lookup correctness reduces to this bloom property plus Hash/Eq consistency of Tuple (C31) - an "
                    "argument, not a solver verdict"],
    },
    "C05K": {
        "quick": ["c05_remap0", "c05_remap1", "c05_remap2"],
        "thorough": [],
        "functions": ["inputlayer::optimizer::Optimizer::remap_projection_for_join_flatmap"],
        "bounds": {"*": "left width 0..3, right width 3, right key list of length 0/1/2 with arbitrary (possibly equal) "
                        "key columns, every join-output index"},
        "assumptions": [],
        "outside": [],
    },
}
