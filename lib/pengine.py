"""Engine P plumbing: the bridge to the real engine (ilp), witness/model validation,
solver queries over symbolic EDBs, and native replay of counterexamples."""
import json, os, subprocess, sys, time, hashlib
import smt as S
import vcommon as vc
import kengine as ke
import encode as E
import refsem as R

ALL_CONFIGS = [[bool(m >> i & 1) for i in range(5)] for m in range(32)]
CFG_NAMES = ["join_planning", "sip_rewriting", "subplan_sharing", "boolean_specialization", "magic_sets"]
DEFAULT_CFG = [True] * 5
OFF_CFG = [False] * 5


# String columns are modelled as Int codes: code c <-> the string "k%03d" % (c + 500); fixed width keeps the
# lexicographic order of the strings equal to the numeric order of the codes.
REL_TYPES = {"s": "IS", "t": "SS"}          # relation -> per-column type (I = Int64, S = String)
STR_SHIFT = 500


def str_of(code):
    return "k%03d" % (code + STR_SHIFT)


def code_of(st):
    if isinstance(st, str) and len(st) == 4 and st[0] == "k" and st[1:].isdigit():
        return int(st[1:]) - STR_SHIFT
    return st


def encode_edb(edb):
    out = {}
    for rel, rows in edb.items():
        ty = REL_TYPES.get(rel)
        if not ty:
            out[rel] = rows
            continue
        out[rel] = [[str_of(v) if (i < len(ty) and ty[i] == "S" and isinstance(v, int)) else v
                     for i, v in enumerate(row)] for row in rows]
    return out


def decode_rows(rows):
    return [[code_of(v) for v in row] for row in rows]


def cfg_str(c):
    return "".join("1" if b else "0" for b in c)


class Bridge:
    """Persistent ilp process (the real engine, built from /repo's working tree)."""

    def __init__(self):
        self.p = None
        self.jobs = 0
        self.secs = 0.0

    def start(self):
        self.p = subprocess.Popen([ke.native_bin("ilp")], stdin=subprocess.PIPE, stdout=subprocess.PIPE,
                                  stderr=subprocess.DEVNULL, text=True, bufsize=1, env=vc.ENV)

    def job(self, j):
        if self.p is None or self.p.poll() is not None:
            self.start()
        t0 = time.time()
        if isinstance(j.get("edb"), dict):
            j = dict(j)
            j["edb"] = encode_edb(j["edb"])
        try:
            self.p.stdin.write(json.dumps(j) + "\n")
            self.p.stdin.flush()
            line = self.p.stdout.readline()
        except (BrokenPipeError, OSError):
            line = ""
        self.jobs += 1
        self.secs += time.time() - t0
        if not line:
            # the process died (abort/stack overflow in the engine): restart and report
            try:
                self.p.kill()
            except Exception:
                pass
            self.p = None
            return {"ok": False, "error": "engine process died", "crash": True}
        return json.loads(line)

    def close(self):
        if self.p is not None:
            try:
                self.p.stdin.close()
                self.p.wait(timeout=5)
            except Exception:
                self.p.kill()


def witness_edb(arities, rows=2):
    """Small concrete EDB used to make the engine reveal its plan (every relation non-empty)."""
    edb = {}
    for i, (rel, ar) in enumerate(sorted(arities.items())):
        edb[rel] = [[(r + c + i) % 3 + 1 for c in range(ar)] for r in range(rows)]
        # make rows distinct
        seen, out = set(), []
        for r_i, row in enumerate(edb[rel]):
            while tuple(row) in seen:
                row = [row[0] + 1] + row[1:] if row else row
                if not row:
                    break
            seen.add(tuple(row))
            out.append(row)
        edb[rel] = out
    return edb


def concrete_tables(edb):
    return {rel: [E.Row(True, list(row)) for row in rows] for rel, rows in edb.items()}


def rows_to_set(rows):
    return E.concrete_set(rows)


def answer_set(ans):
    out = set()
    for row in decode_rows(ans):
        if any(not isinstance(v, int) for v in row):
            out.add(tuple(json.dumps(v, sort_keys=True) if not isinstance(v, int) else v for v in row))
        else:
            out.add(tuple(row))
    return out


def seeds_of(reply, edb_names):
    """Relations the engine added to its input tuples (magic seeds): concrete, program-derived."""
    s = {}
    for rel, rows in reply.get("inputs_after", {}).items():
        if rel not in edb_names:
            s[rel] = decode_rows(rows)
    return s


def script_key(reply, edb_names, extra=""):
    h = hashlib.sha1()
    h.update(json.dumps(reply.get("events"), sort_keys=True).encode())
    h.update(json.dumps(seeds_of(reply, edb_names), sort_keys=True).encode())
    h.update(extra.encode())
    return h.hexdigest()


class Case:
    """One (program, config, workers, history) under analysis."""

    def __init__(self, program, text, cfg, workers=1, history=None, label=""):
        self.program, self.text, self.cfg, self.workers = program, text, cfg, workers
        self.history = history or []
        self.label = label

    def job(self, edb):
        return {"job": "run", "program": self.text, "config": self.cfg, "workers": self.workers, "edb": edb,
                "history": self.history}

    def describe(self):
        return {"program": self.text, "config": cfg_str(self.cfg), "workers": self.workers,
                "history": self.history, "label": self.label}


class Stats:
    def __init__(self):
        self.queries = 0
        self.solver_s = 0.0
        self.unsat = 0
        self.sat = 0
        self.unknown = 0
        self.model_validations = 0
        self.model_mismatches = []
        self.unsupported = {}
        self.engine_errors = {}
        self.replayed = 0
        self.k_incomplete = 0

    def note_unsupported(self, why):
        self.unsupported[why] = self.unsupported.get(why, 0) + 1


CROSSCHECK_BUDGET = {"n": int(os.environ.get("VERIF_CROSSCHECK", "0"))}


def solve(constraints, timeout_ms, stats):
    t0 = time.time()
    v, look = S.solve_z3py(constraints, timeout_ms)
    stats.queries += 1
    stats.solver_s += time.time() - t0
    if CROSSCHECK_BUDGET["n"] > 0 and v in ("sat", "unsat"):
        # second opinion from cvc5 on the very same script (diff of two solvers; thorough tier)
        CROSSCHECK_BUDGET["n"] -= 1
        v2, out2 = S.solve_external(constraints, 30, "cvc5")
        stats.crosschecked = getattr(stats, "crosschecked", 0) + 1
        if v2 in ("sat", "unsat") and v2 != v:
            stats.solver_disagreements = getattr(stats, "solver_disagreements", [])
            stats.solver_disagreements.append({"z3": v, "cvc5": v2})
        elif v2 not in ("sat", "unsat"):
            stats.crosscheck_unknown = getattr(stats, "crosscheck_unknown", 0) + 1
    if v == "sat":
        stats.sat += 1
    elif v == "unsat":
        stats.unsat += 1
    else:
        stats.unknown += 1
    return v, look


def extract_edb(look, edb_tables):
    out = {}
    for rel, rows in edb_tables.items():
        got = []
        for r in rows:
            if look(r.p, "Bool"):
                got.append([look(c, "Int") for c in r.c])
        out[rel] = got
    return out


def reveal(bridge, case, arities, stats):
    """Run the real engine on a witness EDB; returns (reply, witness_edb) or (None, reason)."""
    w = witness_edb(arities)
    rep = bridge.job(case.job(w))
    if not rep.get("ok"):
        err = rep.get("error", "?")
        key = err[:80]
        stats.engine_errors[key] = stats.engine_errors.get(key, 0) + 1
        return None, err
    return rep, w


def validate_model(rep, w, case, k, stats):
    """The encoder's prediction on the witness EDB must equal the engine's own answer."""
    names = set(w.keys())
    inputs = dict(w)
    inputs.update(seeds_of(rep, names))
    pred = rows_to_set(E.run_script(rep["events"], concrete_tables(inputs), k).answer)
    got = answer_set(rep["answer"])
    stats.model_validations += 1
    if pred != got:
        stats.model_mismatches.append({"case": case.describe(), "edb": w, "model": sorted(pred), "engine": sorted(got)})
        return False
    return True


def symbolic_inputs(arities, rep, n_rows, tag=""):
    edb = {rel: E.sym_table(rel, ar, n_rows if isinstance(n_rows, int) else n_rows.get(rel, 2), tag)
           for rel, ar in arities.items()}
    inputs = dict(edb)
    inputs.update(concrete_tables(seeds_of(rep, set(arities.keys()))))
    return edb, inputs
