"""Shared helpers for the /verif checks: evidence files, known findings, subprocesses."""
import fcntl, json, os, re, subprocess, sys, time

VERIF = os.path.dirname(os.path.dirname(os.path.abspath(__file__)))
REPO = os.environ.get("VERIF_REPO", "/repo")
CACHE = os.path.join(VERIF, ".cache")
EVID = os.path.join(VERIF, "evidence")
REPLAY = os.path.join(VERIF, "replay")
FINDINGS = os.path.join(VERIF, "KNOWN_FINDINGS.txt")

ENV = dict(os.environ)
ENV.update({"CARGO_NET_OFFLINE": "true", "GOPROXY": "off", "PIP_NO_INDEX": "1"})


def seed():
    try:
        return int(os.environ.get("VERIF_SEED", "0"))
    except ValueError:
        return 0


def tier(argv_tier=None):
    t = argv_tier or os.environ.get("VERIF_TIER") or "quick"
    return t if t in ("quick", "thorough") else "quick"


def ensure_dirs():
    for d in (CACHE, EVID, REPLAY):
        os.makedirs(d, exist_ok=True)


class Lock:
    """File lock so that memory-hungry solver runs from concurrent checks serialize."""

    def __init__(self, name):
        ensure_dirs()
        self.path = os.path.join(CACHE, name + ".lock")

    def __enter__(self):
        self.f = open(self.path, "w")
        fcntl.flock(self.f, fcntl.LOCK_EX)
        return self

    def __exit__(self, *a):
        fcntl.flock(self.f, fcntl.LOCK_UN)
        self.f.close()


def run(cmd, cwd=None, timeout=None, env=None, mem_gb=None):
    """Run a command; returns (rc, output, seconds). rc=-9 on timeout."""
    e = dict(ENV)
    if env:
        e.update(env)
    pre = None
    if mem_gb:
        import resource

        def pre():
            lim = int(mem_gb * (1 << 30))
            resource.setrlimit(resource.RLIMIT_AS, (lim, lim))

    t0 = time.time()
    try:
        p = subprocess.run(cmd, cwd=cwd, env=e, stdout=subprocess.PIPE, stderr=subprocess.STDOUT,
                           timeout=timeout, preexec_fn=pre, text=True, errors="replace")
        return p.returncode, p.stdout, time.time() - t0
    except subprocess.TimeoutExpired as ex:
        out = ex.stdout or ""
        if isinstance(out, bytes):
            out = out.decode(errors="replace")
        subprocess.run(["pkill", "-x", "cbmc"], check=False)
        return -9, out, time.time() - t0


def load_findings():
    """KNOWN_FINDINGS.txt lines:
         open: property=<id> key=<role-key> <what fails>
         fixed: property=<id> <commit> <what failed>
       Only `open:` entries suppress; `fixed:` entries are a record and suppress nothing."""
    out = []
    if not os.path.exists(FINDINGS):
        return out
    for line in open(FINDINGS):
        line = line.strip()
        if not line or line.startswith("#"):
            continue
        m = re.match(r"open:\s+property=(\S+)\s+key=(\S+)\s+(.*)$", line)
        if m:
            out.append({"status": "open", "property": m.group(1), "key": m.group(2), "what": m.group(3)})
            continue
        m = re.match(r"fixed:\s+property=(\S+)\s+(\S+)\s+(.*)$", line)
        if m:
            out.append({"status": "fixed", "property": m.group(1), "commit": m.group(2), "what": m.group(3)})
    return out


def open_finding_for(prop, key):
    for f in load_findings():
        if f["status"] == "open" and f["property"] == prop and f["key"] == key:
            return f
    return None


def write_evidence(prop, tier_, level, coverage, assumptions, wall_s, violations):
    ensure_dirs()
    ev = {
        "property_id": prop,
        "tier": tier_,
        "seed": seed(),
        "level": level,
        "coverage": coverage,
        "assumptions": assumptions,
        "wall_s": round(wall_s, 2),
        "violations": violations,
    }
    p = os.path.join(EVID, prop + ".json")
    tmp = p + ".tmp"
    with open(tmp, "w") as f:
        json.dump(ev, f, indent=1, sort_keys=False, default=str)
    os.replace(tmp, p)
    return p


def finish(prop, violations, known, inconclusive):
    """Print the verdict lines and return the exit code.
       violations: list of (replay_path, text); known: list of text; inconclusive: list of text."""
    for k in known:
        print(f"KNOWN-FINDING: property={prop} {k}")
    for path, text in violations:
        print(f"VIOLATION property={prop} replay={path}  # {text}")
    if violations:
        return 1
    if inconclusive:
        for t in inconclusive:
            print(f"INCONCLUSIVE property={prop} {t}")
        return 2
    print(f"OK property={prop}")
    return 0
