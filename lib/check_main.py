"""Entry point: check <ID> [--tier quick|thorough] [--replay <path>]"""
import argparse, importlib, os, sys

HERE = os.path.dirname(os.path.abspath(__file__))
VERIF = os.path.dirname(HERE)
for d in (HERE, os.path.join(VERIF, "p"), os.path.join(VERIF, "checks")):
    if d not in sys.path:
        sys.path.insert(0, d)

K_PROPS = {"C26", "C28", "C31", "C35", "C36"}
P_PROPS = {"C01", "C02", "C03", "C04", "C05", "C06"}


def main():
    ap = argparse.ArgumentParser()
    ap.add_argument("prop")
    ap.add_argument("--tier", default=None)
    ap.add_argument("--replay", default=None)
    a = ap.parse_args()
    import vcommon
    t = vcommon.tier(a.tier)
    prop = a.prop.upper()
    if a.replay:
        import replay_main
        sys.exit(replay_main.replay(prop, a.replay))
    if prop in K_PROPS:
        import kcheck
        sys.exit(kcheck.run_property(prop, t))
    if prop in P_PROPS:
        import pcheck
        sys.exit(pcheck.run_property(prop, t))
    print(f"property {prop} is not claimed (see MANIFEST.not_applicable)")
    sys.exit(2)


if __name__ == "__main__":
    main()
