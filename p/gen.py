"""Seeded generator of IQL programs in the stratified Int fragment (structure: see refsem.py),
plus a fixed exhaustive family of small join/filter templates."""
import itertools
import random

EDB = [("a", 2), ("b", 2), ("c", 1), ("d", 3), ("e", 2)]
VARS = ["X", "Y", "Z", "W", "U", "V"]
CMP = ["=", "!=", "<", "<=", ">", ">="]
CONSTS = [0, 1, 2, 3, 5]


def V(x):
    return ("var", x)


def C(n):
    return ("const", n)


def atom_vars(lit):
    return [t[1] for t in lit[2] if t[0] == "var"]


class Gen:
    def __init__(self, seed):
        self.rng = random.Random(seed)

    # ---------------- rule bodies ----------------
    def body(self, avail, n_atoms, allow_wild=True, connect=0.85):
        rng = self.rng
        lits, bound = [], []
        fresh = iter(VARS)
        used = set()

        def new_var():
            for v in VARS:
                if v not in used:
                    used.add(v)
                    return v
            return None
        for i in range(n_atoms):
            rel, ar = rng.choice(avail)
            args = []
            shared = False
            for j in range(ar):
                r = rng.random()
                if r < 0.11:
                    args.append(C(rng.choice(CONSTS)))
                elif r < 0.19 and allow_wild:
                    args.append(("wild",))
                elif bound and (rng.random() < 0.45 or (i > 0 and not shared and j == ar - 1 and rng.random() < connect)):
                    args.append(V(rng.choice(bound)))
                    shared = True
                else:
                    v = new_var()
                    if v is None:
                        args.append(V(rng.choice(bound)))
                    else:
                        args.append(V(v))
            lits.append(("pos", rel, args))
            for t in args:
                if t[0] == "var" and t[1] not in bound:
                    bound.append(t[1])
        return lits, bound, used

    def cmp_lit(self, bound):
        rng = self.rng
        x = rng.choice(bound)
        r = rng.random()
        if r < 0.45 or len(bound) < 2:
            return ("cmp", V(x), rng.choice(CMP), C(rng.choice(CONSTS)))
        y = rng.choice([b for b in bound if b != x])
        if r < 0.75:
            return ("cmp", V(x), rng.choice(CMP), V(y))
        op = rng.choice(["+", "-", "*"])
        form = rng.random()
        if form < 0.35:
            return ("cmp", V(x), rng.choice(CMP), ("bin", op, V(y), C(rng.choice([1, 2, 3]))))
        if form < 0.7:
            # arithmetic on the LEFT, bare variable on the right (the builder mirrors the operator)
            return ("cmp", ("bin", op, V(y), C(rng.choice([1, 2, 3]))), rng.choice(CMP), V(x))
        return ("cmp", ("bin", op, V(x), V(y)), rng.choice(CMP), C(rng.choice(CONSTS)))

    def neg_lit(self, avail, bound):
        rng = self.rng
        rel, ar = rng.choice(avail)
        args = []
        for _ in range(ar):
            r = rng.random()
            if r < 0.75:
                args.append(V(rng.choice(bound)))
            elif r < 0.9:
                args.append(C(rng.choice(CONSTS)))
            else:
                args.append(("wild",))
        if not any(t[0] == "var" for t in args):
            args[0] = V(rng.choice(bound))
        return ("neg", rel, args)

    def let_lit(self, bound, used):
        rng = self.rng
        for v in VARS:
            if v not in used:
                x = rng.choice(bound)
                if len(bound) > 1 and rng.random() < 0.6:
                    y = rng.choice([b for b in bound if b != x])
                    e = ("bin", rng.choice(["+", "-", "*"]), V(x), V(y))
                else:
                    e = ("bin", rng.choice(["+", "-", "*"]), V(x), C(rng.choice([1, 2, 3])))
                used.add(v)
                return ("let", v, e), v
        return None, None

    def rule(self, head, arity, avail, neg_avail=None, n_atoms=None, agg=None, p_cmp=0.5, p_neg=0.3, p_let=0.2,
             head_const=0.08):
        rng = self.rng
        n_atoms = n_atoms or rng.choice([1, 2, 2, 3])
        for _ in range(50):
            lits, bound, used = self.body(avail, n_atoms)
            if bound:
                break
        extra = []
        hv = list(bound)
        if rng.random() < p_let:
            l, v = self.let_lit(bound, used)
            if l:
                extra.append(l)
                hv.append(v)
        if rng.random() < p_cmp:
            extra.append(self.cmp_lit(bound))
        if neg_avail and rng.random() < p_neg:
            extra.append(self.neg_lit(neg_avail, bound))
        if agg:
            f = agg
            gvars = rng.sample(bound, k=min(len(bound) - 1, max(0, arity - 1))) if len(bound) > 1 else []
            rest = [b for b in bound if b not in gvars] or bound
            hargs = [V(g) for g in gvars] + [("agg", f, rng.choice(rest))]
        else:
            hargs = []
            for _ in range(arity):
                if rng.random() < head_const:
                    hargs.append(C(rng.choice(CONSTS)))
                else:
                    hargs.append(V(rng.choice(hv)))
        return {"head": (head, hargs), "body": lits + extra}

    # ---------------- program shapes ----------------
    def prog_flat(self, feats):
        rng = self.rng
        rules = []
        avail = list(EDB)
        n_views = rng.choice([0, 0, 1, 1, 2])
        for i in range(n_views):
            h = f"v{i}"
            ar = rng.choice([1, 2, 2])
            for _ in range(rng.choice([1, 1, 2])):
                rules.append(self.rule(h, ar, avail, neg_avail=avail if "neg" in feats else None,
                                       p_let=0.2 if "arith" in feats else 0.0))
            avail = avail + [(h, ar)]
        ar = rng.choice([1, 2, 2, 3])
        pref = [x for x in avail if x[0].startswith("v")]
        q_av = avail + pref * 3
        for _ in range(rng.choice([1, 1, 1, 2])):
            rules.append(self.rule("q", ar, q_av, neg_avail=avail if "neg" in feats else None,
                                   p_let=0.2 if "arith" in feats else 0.0))
        return {"rules": rules, "query": "q"}

    def prog_agg(self, feats):
        rng = self.rng
        rules = []
        avail = list(EDB)
        if rng.random() < 0.3:
            rules.append(self.rule("v0", 2, avail, p_let=0.0, p_neg=0.0))
            avail = avail + [("v0", 2)] * 3
        f = rng.choice(["count", "count", "sum", "min", "max", "count_distinct"])
        ar = rng.choice([1, 2, 2, 3])
        r = self.rule("q", ar, avail, n_atoms=rng.choice([1, 1, 2, 2]), agg=f, p_neg=0.15 if "neg" in feats else 0.0,
                      neg_avail=list(EDB), p_let=0.0)
        rules.append(r)
        if rng.random() < 0.25:
            # a consumer of the aggregate
            rules[-1]["head"] = ("g", rules[-1]["head"][1])
            n = len(rules[-1]["head"][1])
            vs = VARS[:n]
            body = [("pos", "g", [V(v) for v in vs])]
            if rng.random() < 0.6:
                body.append(("cmp", V(vs[-1]), rng.choice(CMP), C(rng.choice([1, 2, 3]))))
            rules.append({"head": ("q", [V(v) for v in vs]), "body": body})
        return {"rules": rules, "query": "q"}

    def prog_rec(self, feats):
        """Self-recursive relation r over an edge relation, then a query over r."""
        rng = self.rng
        e = rng.choice(["a", "b", "e"])
        base_kind = rng.choice(["plain", "plain", "swap", "filter", "join", "two"])
        rules = []
        if base_kind == "plain":
            rules.append({"head": ("r", [V("X"), V("Y")]), "body": [("pos", e, [V("X"), V("Y")])]})
        elif base_kind == "swap":
            rules.append({"head": ("r", [V("X"), V("Y")]), "body": [("pos", e, [V("Y"), V("X")])]})
        elif base_kind == "filter":
            rules.append({"head": ("r", [V("X"), V("Y")]),
                          "body": [("pos", e, [V("X"), V("Y")]), ("cmp", V("X"), rng.choice(CMP), C(rng.choice(CONSTS)))]})
        elif base_kind == "join":
            rules.append({"head": ("r", [V("X"), V("Y")]),
                          "body": [("pos", e, [V("X"), V("Y")]), ("pos", "c", [V("X")])]})
        else:
            rules.append({"head": ("r", [V("X"), V("Y")]), "body": [("pos", e, [V("X"), V("Y")])]})
            rules.append({"head": ("r", [V("X"), V("Y")]), "body": [("pos", "b" if e != "b" else "a", [V("X"), V("Y")])]})
        rk = rng.choice(["right", "left", "nonlinear", "other_edge", "filter", "neg", "perm", "perm", "perm", "sym"])
        e2 = e
        if rk == "other_edge":
            e2 = rng.choice([x for x in ["a", "b", "e"] if x != e])
        if rk in ("right", "other_edge"):
            rules.append({"head": ("r", [V("X"), V("Z")]), "body": [("pos", e2, [V("X"), V("Y")]), ("pos", "r", [V("Y"), V("Z")])]})
        elif rk == "perm":
            # every way of joining one edge atom with the recursive atom on one shared variable:
            # join column of e, join column of r, atom order, head order (the plain closure is one of 16)
            eargs = [V("X"), V("Y")] if rng.random() < 0.5 else [V("Y"), V("X")]
            rargs = [V("Y"), V("Z")] if rng.random() < 0.5 else [V("Z"), V("Y")]
            body = [("pos", e, eargs), ("pos", "r", rargs)]
            if rng.random() < 0.5:
                body.reverse()
            head = [V("X"), V("Z")] if rng.random() < 0.6 else [V("Z"), V("X")]
            rules.append({"head": ("r", head), "body": body})
        elif rk == "sym":
            # symmetric closure: the recursive atom alone, arguments swapped
            rules.append({"head": ("r", [V("X"), V("Y")]), "body": [("pos", "r", [V("Y"), V("X")])]})
        elif rk == "left":
            rules.append({"head": ("r", [V("X"), V("Z")]), "body": [("pos", "r", [V("X"), V("Y")]), ("pos", e, [V("Y"), V("Z")])]})
        elif rk == "nonlinear":
            rules.append({"head": ("r", [V("X"), V("Z")]), "body": [("pos", "r", [V("X"), V("Y")]), ("pos", "r", [V("Y"), V("Z")])]})
        elif rk == "filter":
            rules.append({"head": ("r", [V("X"), V("Z")]),
                          "body": [("pos", e, [V("X"), V("Y")]), ("pos", "r", [V("Y"), V("Z")]),
                                   ("cmp", V("X"), rng.choice(CMP), V("Z"))]})
        else:
            rules.append({"head": ("r", [V("X"), V("Z")]),
                          "body": [("pos", e, [V("X"), V("Y")]), ("pos", "r", [V("Y"), V("Z")]), ("neg", "c", [V("Z")])]})
        if rng.random() < 0.35:
            # base clauses are not always written first
            rng.shuffle(rules)
        qk = rng.choice(["all", "bound1", "bound2", "filter", "neg", "count", "join", "both", "boundjoin",
                         "mq1", "mq2", "mq1", "mq2", "mqjoin"])
        qhead = "q"
        k = rng.choice([0, 1, 2])
        if qk == "all":
            rules.append({"head": ("q", [V("X"), V("Y")]), "body": [("pos", "r", [V("X"), V("Y")])]})
        elif qk == "bound1":
            rules.append({"head": ("q", [V("Y")]), "body": [("pos", "r", [C(k), V("Y")])]})
        elif qk == "bound2":
            rules.append({"head": ("q", [V("X")]), "body": [("pos", "r", [V("X"), C(k)])]})
        elif qk == "filter":
            rules.append({"head": ("q", [V("X"), V("Y")]),
                          "body": [("pos", "r", [V("X"), V("Y")]), ("cmp", V("X"), rng.choice(CMP), V("Y"))]})
        elif qk == "neg":
            rules.append({"head": ("q", [V("X")]), "body": [("pos", "c", [V("X")]), ("neg", "r", [C(k), V("X")])]})
        elif qk == "count":
            rules.append({"head": ("q", [V("X"), ("agg", "count", "Y")]), "body": [("pos", "r", [V("X"), V("Y")])]})
        elif qk in ("mq1", "mq2", "mqjoin"):
            # the handler's `?r(1, Y)` shorthand: head __query__, constants bound through `_cN = k` equalities;
            # this is the only shape for which apply_magic_sets fires
            qhead = "__query__"
            if qk == "mq1":
                rules.append({"head": (qhead, [V("_c0"), V("Y")]),
                              "body": [("pos", "r", [V("_c0"), V("Y")]), ("cmp", V("_c0"), "=", C(k))]})
            elif qk == "mq2":
                rules.append({"head": (qhead, [V("X"), V("_c1")]),
                              "body": [("pos", "r", [V("X"), V("_c1")]), ("cmp", V("_c1"), "=", C(k))]})
            else:
                pos_first = rng.random() < 0.5
                rules.append({"head": (qhead, [V("_c0"), V("Y"), V("Z")]),
                              "body": [("pos", "r", [V("_c0"), V("Y")] if pos_first else [V("Y"), V("_c0")]),
                                       ("pos", "a", [V("Y"), V("Z")]), ("cmp", V("_c0"), "=", C(k))]})
        elif qk == "both":
            rules.append({"head": ("q", [V("X")]), "body": [("pos", "c", [V("X")]), ("pos", "r", [C(k), C(rng.choice([0, 1, 2]))])]})
        elif qk == "boundjoin":
            rules.append({"head": ("q", [V("Y"), V("Z")]),
                          "body": [("pos", "r", [C(k), V("Y")]), ("pos", "a", [V("Y"), V("Z")])]})
        else:
            rules.append({"head": ("q", [V("X"), V("Z")]),
                          "body": [("pos", "r", [V("X"), V("Y")]), ("pos", "d", [V("Y"), V("Z"), ("wild",)])]})
        return {"rules": rules, "query": qhead}

    def prog_mutual(self, feats):
        rng = self.rng
        e = rng.choice(["a", "e"])
        rules = [
            {"head": ("ev", [V("X")]), "body": [("pos", "c", [V("X")])]},
            {"head": ("ev", [V("Y")]), "body": [("pos", "od", [V("X")]), ("pos", e, [V("X"), V("Y")])]},
            {"head": ("od", [V("Y")]), "body": [("pos", "ev", [V("X")]), ("pos", e, [V("X"), V("Y")])]},
        ]
        if rng.random() < 0.5:
            rng.shuffle(rules)
        rules.append({"head": ("q", [V("X")]), "body": [("pos", rng.choice(["od", "ev"]), [V("X")])]})
        return {"rules": rules, "query": "q"}

    def prog_shared(self, feats):
        """Two or three rules that contain the same two-atom join (subplan sharing / SIP / join planning targets)."""
        rng = self.rng
        (r1, a1), (r2, a2) = rng.sample(EDB, 2)
        vs1 = VARS[:a1]
        vs2 = [vs1[-1]] + VARS[a1:a1 + a2 - 1]
        if rng.random() < 0.4 and a2 > 1:
            vs2 = vs2[1:] + vs2[:1]
        core = [("pos", r1, [V(v) for v in vs1]), ("pos", r2, [V(v) for v in vs2])]
        allv = list(dict.fromkeys(vs1 + vs2))
        rules = []

        def mk(head, extra_p=0.7, near=False):
            body = [(l[0], l[1], list(l[2])) for l in core]
            if near:
                # same relations, but joined on a different column: a near-miss for plan sharing
                i = rng.randrange(2)
                args = body[i][2]
                if len(args) > 1:
                    j = rng.randrange(1, len(args))
                    body[i] = (body[i][0], body[i][1], args[j:] + args[:j])
            if rng.random() < 0.5:
                body.reverse()
            if rng.random() < extra_p:
                body.append(self.cmp_lit(allv))
            if rng.random() < 0.3:
                body.append(self.neg_lit(list(EDB), allv))
            if rng.random() < 0.3:
                rel, ar = rng.choice(EDB)
                body.append(("pos", rel, [V(rng.choice(allv))] + [("wild",)] * (ar - 1)))
            n = rng.choice([1, 2, 2])
            return {"head": (head, [V(rng.choice(allv)) for _ in range(n)]), "body": body}
        v = mk("v0")
        rules.append(v)
        if rng.random() < 0.5:
            rules.append(mk("v1"))
        q = mk("q", near=rng.random() < 0.5)
        if rng.random() < 0.6:
            # the query also uses the view
            hv = [t[1] for t in v["head"][1]]
            q["body"].append(("pos", "v0", [V(rng.choice(allv)) for _ in hv]))
        rules.append(q)
        if rng.random() < 0.3:
            q2 = mk("q")
            q2["head"] = ("q", [V(rng.choice(allv)) for _ in q["head"][1]])
            rules.append(q2)
        return {"rules": rules, "query": "q"}

    def prog_twins(self, feats):
        """Two heads with identical bodies except for ONE detail (which variable is negated / compared, a constant,
        a comparison operator, a join column, the head projection). Near-identical plans must not be merged or
        confused by plan hashing/equality (subplan sharing, optimizer fixpoint, SIP naming)."""
        rng = self.rng
        (r1, a1) = rng.choice([("a", 2), ("b", 2), ("e", 2), ("d", 3)])
        vs = VARS[:a1]
        body = [("pos", r1, [V(v) for v in vs])]
        allv = list(vs)
        if rng.random() < 0.5:
            (r2, a2) = rng.choice([("a", 2), ("b", 2), ("c", 1), ("e", 2)])
            vs2 = [rng.choice(vs)] + VARS[a1:a1 + a2 - 1]
            body.append(("pos", r2, [V(v) for v in vs2]))
            allv = list(dict.fromkeys(vs + vs2))
        x, y = rng.sample(allv, 2) if len(allv) > 1 else (allv[0], allv[0])
        kind = rng.choice(["neg", "neg", "cmpvar", "cmpconst", "cmpop", "atomconst", "head", "negconst"])
        nrel, nar = rng.choice([("c", 1), ("b", 2), ("a", 2)])
        h1 = h2 = [V(x), V(y)]
        d1 = d2 = []
        if kind == "neg":
            if nar == 1:
                d1, d2 = [("neg", nrel, [V(x)])], [("neg", nrel, [V(y)])]
            else:
                d1, d2 = [("neg", nrel, [V(x), V(y)])], [("neg", nrel, [V(y), V(x)])]
        elif kind == "negconst":
            if nar == 1:
                d1, d2 = [("neg", nrel, [V(x)]), ("cmp", V(y), ">", C(0))], [("neg", nrel, [V(x)]), ("cmp", V(y), ">", C(1))]
            else:
                d1, d2 = [("neg", nrel, [V(x), C(1)])], [("neg", nrel, [V(x), C(2)])]
        elif kind == "cmpvar":
            op = rng.choice(CMP)
            d1, d2 = [("cmp", V(x), op, C(1))], [("cmp", V(y), op, C(1))]
        elif kind == "cmpconst":
            op = rng.choice(CMP)
            d1, d2 = [("cmp", V(x), op, C(1))], [("cmp", V(x), op, C(2))]
        elif kind == "cmpop":
            d1, d2 = [("cmp", V(x), "<", V(y))], [("cmp", V(x), "<=", V(y))]
        elif kind == "atomconst":
            b1 = [(l[0], l[1], list(l[2])) for l in body]
            b2 = [(l[0], l[1], list(l[2])) for l in body]
            b1[-1][2][-1] = C(1)
            b2[-1][2][-1] = C(2)
            gone = body[-1][2][-1][1]
            keep = [v for v in allv if v != gone] or allv
            hx = [V(rng.choice(keep)), V(rng.choice(keep))]
            rules = [{"head": ("t1", hx), "body": b1}, {"head": ("t2", hx), "body": b2}]
            return self._twins_query(rules)
        else:
            h1, h2 = [V(x), V(y)], [V(y), V(x)]
        rules = [{"head": ("t1", h1), "body": body + d1}, {"head": ("t2", h2), "body": body + d2}]
        return self._twins_query(rules)

    def _twins_query(self, rules):
        rng = self.rng
        qk = rng.choice(["minus", "minus2", "product", "union"])
        if qk == "minus":
            rules.append({"head": ("q", [V("X"), V("Y")]), "body": [("pos", "t1", [V("X"), V("Y")]), ("neg", "t2", [V("X"), V("Y")])]})
        elif qk == "minus2":
            rules.append({"head": ("q", [V("X"), V("Y")]), "body": [("pos", "t2", [V("X"), V("Y")]), ("neg", "t1", [V("X"), V("Y")])]})
        elif qk == "product":
            rules.append({"head": ("q", [V("X"), V("Y"), V("Z"), V("W")]),
                          "body": [("pos", "t1", [V("X"), V("Y")]), ("pos", "t2", [V("Z"), V("W")])]})
        else:
            rules.append({"head": ("q", [V("X"), V("Y"), C(1)]), "body": [("pos", "t1", [V("X"), V("Y")])]})
            rules.append({"head": ("q", [V("X"), V("Y"), C(2)]), "body": [("pos", "t2", [V("X"), V("Y")])]})
        return {"rules": rules, "query": "q"}

    def program(self, kind=None, feats=("neg", "arith")):
        kind = kind or self.rng.choice(["flat", "flat", "flat", "agg", "rec", "rec", "mutual"])
        return getattr(self, "prog_" + kind)(feats), kind


# -------------------------------------------------------------------------------------------
# fixed exhaustive family: 2-atom joins with one comparison placed on every column
# -------------------------------------------------------------------------------------------

def templates():
    out = []
    # q(H..) <- a(X,K), b(K,V), <cmp on one of X,K,V>
    shapes = [
        ([("pos", "a", [V("X"), V("K")]), ("pos", "b", [V("K"), V("V")])], ["X", "K", "V"]),
        ([("pos", "a", [V("K"), V("X")]), ("pos", "b", [V("V"), V("K")])], ["X", "K", "V"]),
        ([("pos", "a", [V("X"), V("K")]), ("pos", "d", [V("K"), V("V"), V("W")])], ["X", "K", "V", "W"]),
        ([("pos", "d", [V("X"), V("K"), V("W")]), ("pos", "b", [V("K"), V("V")])], ["X", "K", "V", "W"]),
        ([("pos", "a", [V("X"), V("K")]), ("pos", "b", [V("K"), V("V")]), ("pos", "c", [V("V")])], ["X", "K", "V"]),
        ([("pos", "a", [V("X"), V("Y")]), ("pos", "b", [V("X"), V("Y")])], ["X", "Y"]),
        ([("pos", "a", [V("X"), V("Y")]), ("pos", "c", [V("Z")])], ["X", "Y", "Z"]),
        # multi-column join keys with a further right column behind them
        ([("pos", "a", [V("X"), V("K")]), ("pos", "d", [V("X"), V("K"), V("V")])], ["X", "K", "V"]),
        ([("pos", "a", [V("X"), V("K")]), ("pos", "d", [V("K"), V("V"), V("X")])], ["X", "K", "V"]),
    ]
    for body, vs in shapes:
        for v in vs:
            for op in (">", "=", "!="):
                head = [V(x) for x in vs if x != "K"][:2] or [V(vs[0])]
                out.append({"rules": [{"head": ("q", head), "body": body + [("cmp", V(v), op, C(2))]}], "query": "q"})
        for x, y in itertools.combinations(vs, 2):
            head = [V(vs[0]), V(vs[-1])]
            out.append({"rules": [{"head": ("q", head), "body": body + [("cmp", V(x), "<", V(y))]}], "query": "q"})
    # comparisons with arithmetic on either side, every operator (boundary rows are found by the solver)
    for op in CMP:
        out.append({"rules": [{"head": ("q", [V("X"), V("Y")]),
                               "body": [("pos", "a", [V("X"), V("Y")]), ("cmp", ("bin", "+", V("X"), C(1)), op, V("Y"))]}], "query": "q"})
        out.append({"rules": [{"head": ("q", [V("X"), V("Y")]),
                               "body": [("pos", "a", [V("X"), V("Y")]), ("cmp", V("Y"), op, ("bin", "-", V("X"), C(1)))]}], "query": "q"})
    # a unary filter atom written first, a three-atom chain and a negation covered by an earlier atom
    out.append({"rules": [{"head": ("q", [V("X"), V("Z")]),
                           "body": [("pos", "c", [V("Z")]), ("pos", "a", [V("X"), V("Y")]), ("pos", "b", [V("Y"), V("Z")]),
                                    ("neg", "e", [V("X"), ("wild",)])]}], "query": "q"})
    out.append({"rules": [{"head": ("q", [V("X"), V("Z")]),
                           "body": [("pos", "a", [V("X"), V("Y")]), ("pos", "c", [V("Y")]), ("pos", "b", [V("Y"), V("Z")]),
                                    ("neg", "c", [V("X")]), ("neg", "e", [V("Z"), V("X")])]}], "query": "q"})
    # negated atoms with repeated variables, constants and anonymous variables in every position
    X, Y = V("X"), V("Y")
    negs = [
        ([("pos", "c", [X])], ("neg", "e", [X, X]), [X]),
        ([("pos", "a", [X, Y])], ("neg", "b", [Y, Y]), [X, Y]),
        ([("pos", "c", [X])], ("neg", "d", [X, ("wild",), X]), [X]),
        ([("pos", "a", [X, Y])], ("neg", "e", [X, C(1)]), [X, Y]),
        ([("pos", "a", [X, Y])], ("neg", "e", [("wild",), Y]), [X, Y]),
        ([("pos", "a", [X, Y])], ("neg", "e", [Y, X]), [X, Y]),
        ([("pos", "a", [X, Y]), ("pos", "c", [X])], ("neg", "d", [Y, X, ("wild",)]), [X, Y]),
        ([("pos", "a", [X, Y])], ("neg", "c", [Y]), [Y, X]),
    ]
    for pos, neg, head in negs:
        out.append({"rules": [{"head": ("q", head), "body": pos + [neg]}], "query": "q"})
        out.append({"rules": [{"head": ("v", [X, Y] if len(neg[2]) > 1 else [X]),
                               "body": [("pos", neg[1], [X, Y] + [("wild",)] * (len(neg[2]) - 2) if len(neg[2]) > 1 else [X])]},
                              {"head": ("q", head), "body": pos + [("neg", "v", [t for t in neg[2]][:2] if len(neg[2]) > 1 else neg[2])]}],
                    "query": "q"})
    # atoms carrying two constants / a constant and a repeated variable, joined with another atom
    multi = [
        [("pos", "d", [V("X"), C(1), C(2)]), ("pos", "b", [V("X"), V("Y")])],
        [("pos", "d", [V("X"), V("X"), C(2)]), ("pos", "b", [V("X"), V("Y")])],
        [("pos", "b", [V("X"), V("Y")]), ("pos", "d", [C(2), V("Y"), C(2)])],
        [("pos", "d", [C(1), V("X"), V("X")]), ("pos", "c", [V("X")]), ("pos", "a", [V("X"), V("Y")])],
        [("pos", "a", [V("X"), V("Y")]), ("pos", "d", [V("Y"), C(0), V("Y")]), ("neg", "c", [V("X")])],
    ]
    for body in multi:
        out.append({"rules": [{"head": ("q", [V("X"), V("Y")]), "body": body}], "query": "q"})
        out.append({"rules": [{"head": ("q", [V("X"), V("Y")]), "body": body + [("cmp", V("X"), "<", V("Y"))]}], "query": "q"})
    # an atom with a REPEATED variable that is not the first atom, followed by a column that is used later; over a
    # base relation and over a view, with and without a negated atom (which keeps SIP / join planning away)
    for rel, pre in (("e", []), ("v", [{"head": ("v", [V("X"), V("Y")]), "body": [("pos", "e", [V("X"), V("Y")])]}])):
        for neg in ([], [("neg", "c", [V("X")])]):
            out.append({"rules": pre + [{"head": ("q", [V("X"), V("W")]),
                                         "body": [("pos", "a", [V("X"), V("Y")]), ("pos", rel, [V("Y"), V("Y")]),
                                                  ("pos", "b", [V("Y"), V("W")])] + neg}], "query": "q"})
            out.append({"rules": pre + [{"head": ("q", [V("X"), V("W"), V("Z")]),
                                         "body": [("pos", "a", [V("X"), V("Y")]), ("pos", "d", [V("Y"), V("Y"), V("W")]),
                                                  ("pos", rel, [V("W"), V("Z")])] + neg}], "query": "q"})
    return out


# -------------------------------------------------------------------------------------------
# synthetic plan trees (IR JSON) for the name-agnostic rewrite passes (optimizer rules)
# -------------------------------------------------------------------------------------------

SCANS = [("a", 2), ("b", 2), ("c", 1), ("d", 3)]


class PlanGen:
    def __init__(self, seed):
        self.rng = random.Random(seed)
        self.n = 0

    def scan(self):
        rel, ar = self.rng.choice(SCANS)
        self.n += 1
        return {"op": "Scan", "rel": rel, "schema": [f"s{self.n}_{i}" for i in range(ar)], "w": ar}, ar

    def pred(self, w):
        rng = self.rng
        r = rng.random()
        col = rng.randrange(w)
        op = rng.choice(["Eq", "Ne", "Gt", "Lt", "Ge", "Le"])
        if r < 0.4 or w < 2:
            return {"p": "ColConst", "op": op, "col": col, "val": rng.choice([0, 1, 2, 3])}
        if r < 0.7:
            return {"p": "Cols", "op": op, "l": col, "r": rng.randrange(w)}
        if r < 0.8:
            return {"p": "And", "l": self.pred(w), "r": self.pred(w)}
        if r < 0.88:
            return {"p": "Or", "l": self.pred(w), "r": self.pred(w)}
        if r < 0.94:
            return {"p": rng.choice(["True", "False"])}
        c2 = rng.randrange(w)
        return {"p": "ColArith", "col": col, "op": op,
                "expr": {"a": "Bin", "op": rng.choice(["Add", "Sub", "Mul"]), "l": {"a": "Var", "name": "V"},
                         "r": {"a": "Const", "val": rng.choice([1, 2])}}, "vars": {"V": c2}}

    def tree(self, depth):
        rng = self.rng
        if depth <= 0 or rng.random() < 0.15:
            t, w = self.scan()
            r = rng.random()
            if r < 0.08:
                # a statically empty input with a proper schema (the optimizer turns it into an empty Union)
                return {"op": "Filter", "input": t, "pred": {"p": "False"}, "w": w}, w
            return t, w
        k = rng.choice(["Map", "Map", "Filter", "Filter", "Filter", "Join", "Join", "Distinct", "Union", "Antijoin",
                        "Compute", "Aggregate"])
        if k == "Map":
            t, w = self.tree(depth - 1)
            n = rng.choice([1, 2, 2, 3, w])
            proj = [rng.randrange(w) for _ in range(max(1, n))]
            if rng.random() < 0.2:
                proj = list(range(w))
            return {"op": "Map", "input": t, "proj": proj, "w": len(proj)}, len(proj)
        if k == "Filter":
            t, w = self.tree(depth - 1)
            return {"op": "Filter", "input": t, "pred": self.pred(w), "w": w}, w
        if k in ("Join", "Antijoin"):
            l, lw = self.tree(depth - 1)
            r, rw = self.tree(depth - 1)
            nk = rng.choice([0, 1, 1, 1, 2]) if k == "Join" else rng.choice([1, 1, 2])
            nk = min(nk, lw, rw)
            lk = [rng.randrange(lw) for _ in range(nk)]
            rk = rng.sample(range(rw), nk) if rng.random() < 0.85 else [rng.randrange(rw) for _ in range(nk)]
            if k == "Antijoin":
                return {"op": "Antijoin", "left": l, "right": r, "lk": lk, "rk": rk, "w": lw}, lw
            w = lw + rw if nk == 0 else lw + rw - len(set(rk))
            return {"op": "Join", "left": l, "right": r, "lk": lk, "rk": rk, "w": w}, w
        if k == "Distinct":
            t, w = self.tree(depth - 1)
            return {"op": "Distinct", "input": t, "w": w}, w
        if k == "Union":
            t, w = self.tree(depth - 1)
            others = []
            for _ in range(rng.choice([1, 1, 2])):
                for _try in range(6):
                    o, ow = self.tree(depth - 1)
                    if ow >= w:
                        if ow > w:
                            o = {"op": "Map", "input": o, "proj": list(range(w)), "w": w}
                        others.append(o)
                        break
            if rng.random() < 0.15:
                others.append({"op": "Filter", "input": t, "pred": {"p": "False"}, "w": w})
            return {"op": "Union", "inputs": [t] + others, "w": w}, w
        if k == "Compute":
            t, w = self.tree(depth - 1)
            e = {"e": "Arith", "op": rng.choice(["Add", "Sub", "Mul"]), "l": {"e": "Col", "idx": rng.randrange(w)},
                 "r": rng.choice([{"e": "Int", "val": rng.choice([1, 2, 3])}, {"e": "Col", "idx": rng.randrange(w)}])}
            return {"op": "Compute", "input": t, "exprs": [["x", e]], "w": w + 1}, w + 1
        t, w = self.tree(depth - 1)
        g = sorted(rng.sample(range(w), rng.choice([0, 1, 1]) if w > 1 else 0))
        f = rng.choice(["Count", "Sum", "Min", "Max", "CountDistinct"])
        return {"op": "Aggregate", "input": t, "group_by": g, "aggs": [[f, rng.randrange(w)]], "w": len(g) + 1}, len(g) + 1


def rec_templates():
    """Fixed family: one edge relation, every way of writing the base clause and the two-atom recursive clause
    (join column of the edge atom, join column of the recursive atom, atom order, head order), query = whole relation.
    Targets the recursion strategy detectors (transitive-closure fast paths) and base/recursive splitting."""
    out = []
    bases = [
        [{"head": ("r", [V("X"), V("Y")]), "body": [("pos", "e", [V("X"), V("Y")])]}],
        [{"head": ("r", [V("X"), V("Y")]), "body": [("pos", "e", [V("Y"), V("X")])]}],
        [{"head": ("r", [V("X"), V("Y")]), "body": [("pos", "d", [V("X"), V("Y"), ("wild",)])]}],
    ]
    for bi, base in enumerate(bases):
        for eflip in (False, True):
            for rflip in (False, True):
                for order in (False, True):
                    for hflip in (False, True):
                        if bi > 0 and (order or hflip):
                            continue
                        erel = "e" if bi < 2 else "d"
                        eargs = [V("Y"), V("X")] if eflip else [V("X"), V("Y")]
                        if erel == "d":
                            eargs = eargs + [("wild",)]
                        rargs = [V("Z"), V("Y")] if rflip else [V("Y"), V("Z")]
                        body = [("pos", erel, eargs), ("pos", "r", rargs)]
                        if order:
                            body.reverse()
                        head = [V("Z"), V("X")] if hflip else [V("X"), V("Z")]
                        rules = [dict(r) for r in base] + [{"head": ("r", head), "body": body},
                                                           {"head": ("q", [V("X"), V("Y")]), "body": [("pos", "r", [V("X"), V("Y")])]}]
                        out.append({"rules": rules, "query": "q"})
                        if bi == 0 or (not eflip and not rflip):
                            # the same program asked through the handler's bound-query form (magic sets)
                            for which in (0, 1):
                                qargs = [V("_c0"), V("Y")] if which == 0 else [V("X"), V("_c0")]
                                rules2 = rules[:-1] + [{"head": ("__query__", qargs),
                                                        "body": [("pos", "r", qargs), ("cmp", V("_c0"), "=", C(1))]}]
                                out.append({"rules": rules2, "query": "__query__"})
    # symmetric closure and a filtered recursive clause, plain and bound
    extra = [
        [{"head": ("r", [V("X"), V("Y")]), "body": [("pos", "e", [V("X"), V("Y")])]},
         {"head": ("r", [V("X"), V("Y")]), "body": [("pos", "r", [V("Y"), V("X")])]}],
        [{"head": ("r", [V("X"), V("Y")]), "body": [("pos", "e", [V("X"), V("Y")])]},
         {"head": ("r", [V("X"), V("Z")]), "body": [("pos", "r", [V("X"), V("Y")]), ("pos", "e", [V("Y"), V("Z")]), ("cmp", V("X"), "!=", V("Z"))]}],
        [{"head": ("r", [V("X"), V("Y")]), "body": [("pos", "e", [V("X"), V("Y")])]},
         {"head": ("r", [V("X"), V("Z")]), "body": [("pos", "r", [V("X"), V("Y")]), ("pos", "e", [V("Y"), V("Z")])]},
         {"head": ("r", [V("X"), V("Y")]), "body": [("pos", "b", [V("X"), V("Y")])]}],
    ]
    for rs in extra:
        out.append({"rules": rs + [{"head": ("q", [V("X"), V("Y")]), "body": [("pos", "r", [V("X"), V("Y")])]}], "query": "q"})
        for which in (0, 1):
            qargs = [V("_c0"), V("Y")] if which == 0 else [V("X"), V("_c0")]
            out.append({"rules": rs + [{"head": ("__query__", qargs), "body": [("pos", "r", qargs), ("cmp", V("_c0"), "=", C(1))]}],
                        "query": "__query__"})
    out.extend(rec_ref_templates())
    return out


def rec_ref_templates():
    """Bound recursive queries in which the recursive relation is ALSO referenced elsewhere: by a view, twice in the
    query, under negation, or with two different constants.  Magic sets restrict the relation to the query's constant;
    every other reference still needs the whole relation."""
    out = []
    base = {"head": ("r", [V("X"), V("Y")]), "body": [("pos", "e", [V("X"), V("Y")])]}
    left = {"head": ("r", [V("X"), V("Z")]), "body": [("pos", "r", [V("X"), V("Y")]), ("pos", "e", [V("Y"), V("Z")])]}
    right = {"head": ("r", [V("X"), V("Z")]), "body": [("pos", "e", [V("X"), V("Y")]), ("pos", "r", [V("Y"), V("Z")])]}
    for rec, which in ((left, 0), (right, 1)):
        def bq(free):
            return [V("_c0"), V(free)] if which == 0 else [V(free), V("_c0")]
        eq = ("cmp", V("_c0"), "=", C(1))
        view = {"head": ("v", [V("X")]), "body": [("pos", "r", [V("X"), V("W")]), ("pos", "e", [V("W"), ("wild",)])]}
        nview = {"head": ("v", [V("X")]), "body": [("pos", "e", [V("X"), ("wild",)]), ("neg", "r", [V("X"), V("X")])]}
        progs = [
            [view, {"head": ("__query__", bq("Y")), "body": [("pos", "r", bq("Y")), ("pos", "v", [V("Y")]), eq]}],
            [{"head": ("__query__", bq("Y") + [V("Z")]), "body": [("pos", "r", bq("Y")), ("pos", "r", [V("Y"), V("Z")]), eq]}],
            [{"head": ("__query__", bq("Y")), "body": [("pos", "r", bq("Y")), ("neg", "r", [V("Y"), V("Y")]), eq]}],
            [nview, {"head": ("__query__", bq("Y")), "body": [("pos", "r", bq("Y")), ("pos", "v", [V("Y")]), eq]}],
            [{"head": ("__query__", [V("_c0"), V("_c1"), V("Y")]),
              "body": [("pos", "r", bq("Y")), ("pos", "r", ([V("_c1"), V("Y")] if which == 0 else [V("Y"), V("_c1")])), eq,
                       ("cmp", V("_c1"), "=", C(2))]}],
        ]
        for tail in progs:
            out.append({"rules": [dict(base), dict(rec)] + tail, "query": "__query__"})
    return out


def partition_templates():
    """Fixed family of join-free single-clause programs: every aggregate function, projections that create
    duplicates, computed columns, filters, unions - the plans execute_with_config may hash-partition."""
    out = []
    for f in ("count", "sum", "min", "max", "count_distinct"):
        out.append({"rules": [{"head": ("q", [V("X"), ("agg", f, "Y")]), "body": [("pos", "a", [V("X"), V("Y")])]}], "query": "q"})
        out.append({"rules": [{"head": ("q", [("agg", f, "Y")]), "body": [("pos", "d", [V("X"), V("Y"), ("wild",)]), ("cmp", V("X"), ">=", C(0))]}], "query": "q"})
        out.append({"rules": [{"head": ("g", [V("X"), ("agg", f, "Y")]), "body": [("pos", "a", [V("X"), V("Y")])]},
                              {"head": ("q", [V("X"), V("V")]), "body": [("pos", "g", [V("X"), V("V")]), ("cmp", V("V"), ">", C(0))]}], "query": "q"})
    out.append({"rules": [{"head": ("q", [V("X")]), "body": [("pos", "a", [V("X"), ("wild",)])]}], "query": "q"})
    out.append({"rules": [{"head": ("q", [V("X"), V("Z")]), "body": [("pos", "a", [V("X"), V("Y")]), ("let", "Z", ("bin", "+", V("Y"), C(1)))]}], "query": "q"})
    out.append({"rules": [{"head": ("q", [V("X"), V("Y")]), "body": [("pos", "a", [V("X"), V("Y")])]},
                          {"head": ("q", [V("X"), V("Y")]), "body": [("pos", "b", [V("Y"), V("X")]), ("cmp", V("X"), "<", V("Y"))]}], "query": "q"})
    out.append({"rules": [{"head": ("q", [V("X"), V("Y")]), "body": [("pos", "a", [V("X"), V("Y")]), ("neg", "c", [V("X")])]}], "query": "q"})
    # unions that mix a partition-safe clause with one that joins or negates (the guard must look at every branch)
    scan = {"head": ("q", [V("X"), V("Y")]), "body": [("pos", "a", [V("X"), V("Y")])]}
    join = {"head": ("q", [V("X"), V("Z")]), "body": [("pos", "a", [V("X"), V("Y")]), ("pos", "b", [V("Y"), V("Z")])]}
    neg = {"head": ("q", [V("X"), V("Y")]), "body": [("pos", "b", [V("X"), V("Y")]), ("neg", "c", [V("X")])]}
    filt = {"head": ("q", [V("X"), V("Y")]), "body": [("pos", "b", [V("X"), V("Y")]), ("cmp", V("X"), "<", V("Y"))]}
    for cl in ([scan, join], [join, scan], [scan, neg], [neg, scan], [filt, join], [scan, filt, join]):
        out.append({"rules": [dict(c) for c in cl], "query": "q"})
    out.append({"rules": [{"head": ("r", c["head"][1]), "body": c["body"]} for c in (scan, join)] +
                         [{"head": ("q", [V("X"), V("Y")]), "body": [("pos", "r", [V("X"), V("Y")])]}], "query": "q"})
    return out


def agg_templates():
    """Fixed family for C06: every simple aggregate over bodies with anonymous variables, joins that multiply
    bindings, filters and negation."""
    out = []
    for f in ("count", "sum", "min", "max", "count_distinct"):
        A = ("agg", f, "V")
        out.append({"rules": [{"head": ("q", [V("G"), A]), "body": [("pos", "d", [V("G"), V("V"), ("wild",)])]}], "query": "q"})
        out.append({"rules": [{"head": ("q", [V("G"), A]), "body": [("pos", "d", [("wild",), V("G"), V("V")]), ("pos", "c", [V("G")])]}], "query": "q"})
        out.append({"rules": [{"head": ("q", [V("G"), A]), "body": [("pos", "a", [V("G"), V("V")]), ("pos", "b", [V("G"), ("wild",)])]}], "query": "q"})
        out.append({"rules": [{"head": ("q", [A]), "body": [("pos", "a", [("wild",), V("V")])]}], "query": "q"})
        out.append({"rules": [{"head": ("q", [V("G"), A]), "body": [("pos", "a", [V("G"), V("V")]), ("neg", "c", [V("V")])]}], "query": "q"})
        out.append({"rules": [{"head": ("q", [V("G"), A]), "body": [("pos", "a", [V("G"), V("K")]), ("pos", "b", [V("K"), V("V")]), ("cmp", V("V"), ">", C(0))]}], "query": "q"})
    return out


def order_templates():
    """Fixed family for C04: small programs whose query head has several clauses and depends on views; every clause
    order (query clause last) is compared by the check."""
    X, Y = V("X"), V("Y")
    out = []
    out.append({"rules": [{"head": ("v", [X]), "body": [("pos", "b", [X, ("wild",)])]},
                          {"head": ("q", [X]), "body": [("pos", "a", [X, ("wild",)])]},
                          {"head": ("q", [X]), "body": [("pos", "v", [X])]}], "query": "q"})
    out.append({"rules": [{"head": ("v", [X, Y]), "body": [("pos", "a", [X, Y]), ("cmp", X, "<", Y)]},
                          {"head": ("q", [X, Y]), "body": [("pos", "b", [X, Y])]},
                          {"head": ("q", [Y, X]), "body": [("pos", "v", [X, Y]), ("neg", "c", [X])]}], "query": "q"})
    out.append({"rules": [{"head": ("v", [X]), "body": [("pos", "c", [X])]},
                          {"head": ("w", [X]), "body": [("pos", "v", [X]), ("pos", "a", [X, ("wild",)])]},
                          {"head": ("q", [X]), "body": [("pos", "w", [X])]}], "query": "q"})
    out.append({"rules": [{"head": ("v", [X]), "body": [("pos", "c", [X])]},
                          {"head": ("v", [X]), "body": [("pos", "a", [X, ("wild",)])]},
                          {"head": ("q", [X, Y]), "body": [("pos", "v", [X]), ("pos", "b", [X, Y])]}], "query": "q"})
    out.append({"rules": [{"head": ("v", [X, ("agg", "count", "Y")]), "body": [("pos", "a", [X, Y])]},
                          {"head": ("q", [X]), "body": [("pos", "c", [X])]},
                          {"head": ("q", [X]), "body": [("pos", "v", [X, Y]), ("cmp", Y, ">", C(1))]}], "query": "q"})
    out.append({"rules": [{"head": ("r", [X, Y]), "body": [("pos", "e", [X, Y])]},
                          {"head": ("q", [X]), "body": [("pos", "c", [X])]},
                          {"head": ("r", [X, V("Z")]), "body": [("pos", "e", [X, Y]), ("pos", "r", [Y, V("Z")])]},
                          {"head": ("q", [Y]), "body": [("pos", "r", [C(1), Y])]}], "query": "q"})
    # dependencies through NEGATION between non-query heads (the dependency sort must order them too)
    out.append({"rules": [{"head": ("v", [X]), "body": [("pos", "b", [X, ("wild",)])]},
                          {"head": ("w", [X, Y]), "body": [("pos", "a", [X, Y]), ("neg", "v", [X])]},
                          {"head": ("q", [X, Y]), "body": [("pos", "w", [X, Y])]}], "query": "q"})
    out.append({"rules": [{"head": ("v", [X]), "body": [("pos", "b", [X, ("wild",)])]},
                          {"head": ("u", [X]), "body": [("pos", "c", [X]), ("neg", "v", [X])]},
                          {"head": ("w", [X, Y]), "body": [("pos", "a", [X, Y]), ("neg", "u", [X])]},
                          {"head": ("q", [X, Y]), "body": [("pos", "w", [X, Y])]}], "query": "q"})
    out.append({"rules": [{"head": ("v", [X]), "body": [("pos", "c", [X])]},
                          {"head": ("w", [X, Y]), "body": [("pos", "a", [X, Y]), ("pos", "v", [Y]), ("neg", "v", [X])]},
                          {"head": ("q", [X, Y]), "body": [("pos", "w", [X, Y])]}], "query": "q"})
    return out


def SC(code):
    return ("sconst", code)


def string_templates():
    """Fixed family over typed relations s(Int, Str), t(Str, Str) (see pengine.REL_TYPES): string constants in atoms,
    heads and comparisons, joins / negation / aggregation on string columns.  String values are modelled as Int codes
    with the same order, so only var-vs-constant order comparisons and var-var (in)equality are used."""
    X, Y, N, M = V("X"), V("Y"), V("N"), V("M")
    B = lambda head, body: {"rules": [{"head": ("q", head), "body": body}], "query": "q"}
    out = [
        B([X], [("pos", "s", [X, SC(1)])]),
        B([X, N], [("pos", "s", [X, N]), ("cmp", N, "!=", SC(1))]),
        B([X, Y], [("pos", "s", [X, N]), ("pos", "s", [Y, N]), ("cmp", X, "<", Y)]),
        B([X, M], [("pos", "s", [X, N]), ("pos", "t", [N, M])]),
        B([X, M], [("pos", "s", [X, N]), ("pos", "t", [N, M]), ("cmp", M, "=", SC(2))]),
        B([X, M], [("pos", "s", [X, N]), ("pos", "t", [M, N]), ("cmp", M, "!=", SC(2))]),
        B([X, M], [("pos", "s", [X, N]), ("pos", "t", [N, M]), ("cmp", N, ">", SC(0))]),
        B([X], [("pos", "s", [X, N]), ("neg", "t", [N, SC(1)])]),
        B([X, N], [("pos", "a", [X, Y]), ("pos", "s", [Y, N]), ("cmp", N, "=", SC(0))]),
        B([N, ("agg", "count", "X")], [("pos", "s", [X, N])]),
        B([X, N], [("pos", "s", [X, N]), ("cmp", N, "<", SC(2))]),
        B([X, SC(3)], [("pos", "s", [X, ("wild",)])]),
        B([N, M], [("pos", "t", [N, M]), ("cmp", N, "!=", M)]),
        B([X], [("pos", "s", [X, N]), ("pos", "t", [N, N])]),
        B([X, N], [("pos", "s", [X, N]), ("pos", "t", [SC(1), N]), ("cmp", X, ">", C(0))]),
    ]
    out.append({"rules": [{"head": ("v", [N]), "body": [("pos", "t", [N, ("wild",)])]},
                          {"head": ("q", [X]), "body": [("pos", "s", [X, N]), ("pos", "v", [N])]}], "query": "q"})
    out.append({"rules": [{"head": ("q", [X, N]), "body": [("pos", "s", [X, N]), ("cmp", N, "=", SC(1))]},
                          {"head": ("q", [X, N]), "body": [("pos", "s", [X, M]), ("pos", "t", [M, N])]}], "query": "q"})
    return out
