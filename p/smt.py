"""Tiny SMT-LIB2 term builder with constant folding.

Terms are Python ints / bools when concrete and SMT-LIB strings when symbolic, so the same
evaluator code runs (a) concretely in pure Python - model validation and prediction - and
(b) symbolically, producing a script for z3 / cvc5.  Long sub-terms are named with
define-fun so that scripts stay linear in the size of the tables.
"""
import re
import subprocess

_ctx = None


class Ctx:
    def __init__(self):
        self.decls = []
        self.defs = []
        self.n = 0
        self.declared = set()

    def fresh(self, prefix):
        self.n += 1
        return f"{prefix}!{self.n}"


def reset():
    global _ctx
    _ctx = Ctx()
    return _ctx


def ctx():
    global _ctx
    if _ctx is None:
        reset()
    return _ctx


def int_var(name):
    c = ctx()
    if name not in c.declared:
        c.declared.add(name)
        c.decls.append(f"(declare-const {name} Int)")
    return name


def bool_var(name):
    c = ctx()
    if name not in c.declared:
        c.declared.add(name)
        c.decls.append(f"(declare-const {name} Bool)")
    return name


def fun(name, arity):
    c = ctx()
    if name not in c.declared:
        c.declared.add(name)
        c.decls.append(f"(declare-fun {name} ({' '.join(['Int'] * arity)}) Int)")
    return name


def is_c(x):
    return isinstance(x, (int, bool)) and not isinstance(x, str)


def s(x):
    if x is True:
        return "true"
    if x is False:
        return "false"
    if isinstance(x, int):
        return str(x) if x >= 0 else f"(- {-x})"
    return x


_atom = re.compile(r"^[^\s()]+$")


def name_bool(e, limit=48):
    if isinstance(e, bool) or len(e) <= limit:
        return e
    c = ctx()
    sym = c.fresh("b")
    c.defs.append(f"(define-fun {sym} () Bool {e})")
    return sym


def name_int(e, limit=48):
    if isinstance(e, int) or len(e) <= limit:
        return e
    c = ctx()
    sym = c.fresh("i")
    c.defs.append(f"(define-fun {sym} () Int {e})")
    return sym


def AND(*xs):
    out = []
    for x in xs:
        if x is True:
            continue
        if x is False:
            return False
        out.append(x)
    if not out:
        return True
    if len(out) == 1:
        return out[0]
    return "(and " + " ".join(out) + ")"


def OR(*xs):
    out = []
    for x in xs:
        if x is False:
            continue
        if x is True:
            return True
        out.append(x)
    if not out:
        return False
    if len(out) == 1:
        return out[0]
    return "(or " + " ".join(out) + ")"


def NOT(x):
    if isinstance(x, bool):
        return not x
    return f"(not {x})"


def IMPLIES(a, b):
    if a is False or b is True:
        return True
    if a is True:
        return b
    if b is False:
        return NOT(a)
    return f"(=> {a} {b})"


def EQ(a, b):
    if is_c(a) and is_c(b):
        return a == b
    if isinstance(a, str) and a == b:
        return True
    return f"(= {s(a)} {s(b)})"


def CMP(op, a, b):
    if op == "Eq":
        return EQ(a, b)
    if op == "Ne":
        return NOT(EQ(a, b))
    if is_c(a) and is_c(b):
        return {"Lt": a < b, "Le": a <= b, "Gt": a > b, "Ge": a >= b}[op]
    return f"({ {'Lt': '<', 'Le': '<=', 'Gt': '>', 'Ge': '>='}[op] } {s(a)} {s(b)})"


def ADD(a, b):
    if is_c(a) and is_c(b):
        return a + b
    return f"(+ {s(a)} {s(b)})"


def SUB(a, b):
    if is_c(a) and is_c(b):
        return a - b
    return f"(- {s(a)} {s(b)})"


def MUL(a, b):
    if is_c(a) and is_c(b):
        return a * b
    return f"(* {s(a)} {s(b)})"


def NEG(a):
    if is_c(a):
        return -a
    return f"(- {a})"


def ITE(c, a, b):
    if c is True:
        return a
    if c is False:
        return b
    if is_c(a) and is_c(b) and a == b:
        return a
    return f"(ite {c} {s(a)} {s(b)})"


def SUM(xs):
    k = 0
    out = []
    for x in xs:
        if is_c(x):
            k += x
        else:
            out.append(x)
    if not out:
        return k
    if k != 0:
        out.append(s(k))
    if len(out) == 1:
        return out[0]
    return "(+ " + " ".join(out) + ")"


def MOD_POS(a, w):
    """a mod w for a concrete positive w (SMT-LIB mod is non-negative for w>0)."""
    if is_c(a):
        return a % w
    return f"(mod {a} {w})"


def TDIV(a, b):
    """Rust truncating division by a concrete non-zero b."""
    if is_c(a):
        q = abs(a) // abs(b)
        return q if (a >= 0) == (b > 0) else -q
    ab = abs(b)
    q = f"(ite (>= {a} 0) (div {a} {ab}) (- (div (- {a}) {ab})))"
    return q if b > 0 else f"(- {q})"


def TMOD(a, b):
    if is_c(a):
        return a - TDIV(a, b) * b
    return SUB(a, MUL(name_int(TDIV(a, b)), b))


def APP(f, args):
    return "(" + f + " " + " ".join(s(a) for a in args) + ")"


# -----------------------------------------------------------------------------------------
# solving
# -----------------------------------------------------------------------------------------

def script(asserts, get_values=None):
    c = ctx()
    lines = ["(set-logic ALL)"] + c.decls + c.defs
    for a in asserts:
        if a is True:
            continue
        lines.append(f"(assert {s(a)})")
    lines.append("(check-sat)")
    if get_values:
        lines.append("(get-value (" + " ".join(get_values) + "))")
    return "\n".join(lines) + "\n"


def solve_z3py(asserts, timeout_ms):
    """In-process z3 on the generated script. Returns (verdict, model_lookup)."""
    import z3
    text = script(asserts)
    sol = z3.Solver()
    sol.set("timeout", int(timeout_ms))
    sol.from_string(text.replace("(check-sat)\n", ""))
    r = sol.check()
    if r == z3.sat:
        m = sol.model()

        def look(name, sort):
            v = m.eval(z3.Bool(name) if sort == "Bool" else z3.Int(name), model_completion=True)
            return z3.is_true(v) if sort == "Bool" else v.as_long()
        return "sat", look
    if r == z3.unsat:
        return "unsat", None
    return "unknown", None


def solve_external(asserts, timeout_s, solver="cvc5", values=None):
    """Second opinion from an external solver binary on the same script (verdict only unless values given)."""
    text = script(asserts, values)
    if solver == "cvc5":
        cmd = ["cvc5", "--lang", "smt2", f"--tlimit={int(timeout_s * 1000)}", "--produce-models"]
    elif solver == "z3old":
        cmd = ["/usr/bin/z3", "-in", f"-T:{int(timeout_s)}"]
    else:
        cmd = ["z3-new", "-in", f"-T:{int(timeout_s)}"]
    try:
        p = subprocess.run(cmd, input=text, stdout=subprocess.PIPE, stderr=subprocess.STDOUT, text=True,
                           timeout=timeout_s + 10)
    except subprocess.TimeoutExpired:
        return "unknown", ""
    out = p.stdout
    if "(error" in out:
        return "error", out
    first = out.strip().splitlines()[0] if out.strip() else ""
    if first in ("sat", "unsat"):
        return first, out
    return "unknown", out
