"""Reference semantics of IQL programs (stratified least model), independent of the engine.

Programs are structured Python values produced by gen.py:
  program = {"rules": [rule...], "query": relname}          (query = head of the last rule)
  rule    = {"head": (rel, [hterm...]), "body": [lit...]}
  hterm   = ("var", X) | ("const", n) | ("agg", func, X) | ("expr", expr)
  lit     = ("pos", rel, [aterm...]) | ("neg", rel, [aterm...]) | ("cmp", expr, op, expr)
            | ("let", X, expr)                      -- X = expr with X not bound by an atom
  aterm   = ("var", X) | ("const", n) | ("wild",)
  expr    = ("var", X) | ("const", n) | ("bin", op, expr, expr)      op in + - *

Two evaluators over the same structure:
  * symbolic (z3 rows) — the oracle side of the solver query;
  * concrete (Python sets) — used only to double-check replays natively.
"""
import itertools
import smt as S
from smt import AND, OR, NOT, EQ, CMP
import encode as _E
from encode import Row, tup_eq, distinct, subset, named, agg_value, Unsupported

OPS = {"=": "Eq", "!=": "Ne", "<": "Lt", "<=": "Le", ">": "Gt", ">=": "Ge"}


# ---------------------------------------------------------------------------------------
# text rendering (engine syntax: one clause per line, no trailing '.', last clause = query)
# ---------------------------------------------------------------------------------------

def _sname(code):
    return '"k%03d"' % (code + 500)


def r_expr(e, top=True):
    if e[0] == "var":
        return e[1]
    if e[0] == "const":
        return str(e[1])
    if e[0] == "sconst":
        return _sname(e[1])
    s = f"{r_expr(e[2], False)} {e[1]} {r_expr(e[3], False)}"
    return s if top else f"({s})"


def r_aterm(t):
    return {"var": lambda: t[1], "const": lambda: str(t[1]), "sconst": lambda: _sname(t[1]), "wild": lambda: "_"}[t[0]]()


def r_hterm(t):
    if t[0] == "var":
        return t[1]
    if t[0] == "const":
        return str(t[1])
    if t[0] == "sconst":
        return _sname(t[1])
    if t[0] == "agg":
        return f"{t[1]}<{t[2]}>"
    return r_expr(t[1])


def r_lit(l):
    if l[0] == "pos":
        return f"{l[1]}({', '.join(r_aterm(a) for a in l[2])})"
    if l[0] == "neg":
        return f"!{l[1]}({', '.join(r_aterm(a) for a in l[2])})"
    if l[0] == "cmp":
        return f"{r_expr(l[1])} {l[2]} {r_expr(l[3])}"
    if l[0] == "let":
        return f"{l[1]} = {r_expr(l[2])}"
    raise ValueError(l)


def r_rule(r):
    h = f"{r['head'][0]}({', '.join(r_hterm(t) for t in r['head'][1])})"
    return f"{h} <- {', '.join(r_lit(l) for l in r['body'])}"


def render(program):
    return "\n".join(r_rule(r) for r in program["rules"])


# ---------------------------------------------------------------------------------------
# dependency analysis (independent of src/recursion.rs)
# ---------------------------------------------------------------------------------------

def idb_rels(program):
    out = []
    for r in program["rules"]:
        if r["head"][0] not in out:
            out.append(r["head"][0])
    return out


def edb_arity(program):
    idb = set(idb_rels(program))
    ar = {}
    for r in program["rules"]:
        for l in r["body"]:
            if l[0] in ("pos", "neg") and l[1] not in idb:
                ar[l[1]] = len(l[2])
    return ar


def sccs(program):
    """Tarjan over IDB dependency graph; returns list of SCCs in dependency (bottom-up) order,
    plus whether the program is stratified (no negative edge inside an SCC)."""
    idb = idb_rels(program)
    pos = {h: set() for h in idb}
    neg = {h: set() for h in idb}
    for r in program["rules"]:
        h = r["head"][0]
        for l in r["body"]:
            if l[0] == "pos" and l[1] in pos:
                pos[h].add(l[1])
            if l[0] == "neg" and l[1] in pos:
                neg[h].add(l[1])
        if any(t[0] == "agg" for t in r["head"][1]):
            # aggregation is non-monotone: treat body deps of an aggregate rule as "negative"
            for l in r["body"]:
                if l[0] == "pos" and l[1] in pos:
                    neg[h].add(l[1])
    index, low, onst, st, out = {}, {}, set(), [], []
    counter = [0]

    def visit(v):
        index[v] = low[v] = counter[0]
        counter[0] += 1
        st.append(v)
        onst.add(v)
        for w in sorted(pos[v] | neg[v]):
            if w not in index:
                visit(w)
                low[v] = min(low[v], low[w])
            elif w in onst:
                low[v] = min(low[v], index[w])
        if low[v] == index[v]:
            comp = []
            while True:
                w = st.pop()
                onst.discard(w)
                comp.append(w)
                if w == v:
                    break
            out.append(comp)

    for v in idb:
        if v not in index:
            visit(v)
    stratified = True
    for comp in out:
        cs = set(comp)
        for v in comp:
            if neg[v] & cs:
                stratified = False
    recursive = []
    for comp in out:
        cs = set(comp)
        recursive.append(len(comp) > 1 or any(v in pos[v] for v in comp))
    return out, recursive, stratified


# ---------------------------------------------------------------------------------------
# symbolic rule evaluation (terms: see smt.py)
# ---------------------------------------------------------------------------------------

def eval_expr_sym(e, bind):
    if e[0] == "var":
        return bind[e[1]]
    if e[0] in ("const", "sconst"):
        return e[1]
    a, b = eval_expr_sym(e[2], bind), eval_expr_sym(e[3], bind)
    return {"+": S.ADD, "-": S.SUB, "*": S.MUL}[e[1]](a, b)


def rule_rows_sym(rule, tables):
    """All satisfying valuations of the rule body as rows: (cond, binding)."""
    pos = [l for l in rule["body"] if l[0] == "pos"]
    lists = [named(tables.get(l[1], [])) for l in pos]
    negs = {l[1]: named(tables.get(l[1], [])) for l in rule["body"] if l[0] == "neg"}
    out = []
    size = 1
    for l_ in lists:
        size *= max(1, len(l_))
    if size > _E.MAX_ROWS:
        raise Unsupported(f"table too large ({size} rows)")
    for combo in itertools.product(*lists):
        cond = []
        bind = {}
        ok = True
        for l, row in zip(pos, combo):
            if len(row.c) != len(l[2]):
                ok = False
                break
            cond.append(row.p)
            for t, v in zip(l[2], row.c):
                if t[0] == "var":
                    if t[1] in bind:
                        cond.append(EQ(bind[t[1]], v))
                    else:
                        bind[t[1]] = v
                elif t[0] in ("const", "sconst"):
                    cond.append(EQ(v, t[1]))
        if not ok:
            continue
        pending = [l for l in rule["body"] if l[0] == "let"]
        progress = True
        while pending and progress:
            progress = False
            for l in list(pending):
                try:
                    val = S.name_int(eval_expr_sym(l[2], bind))
                except KeyError:
                    continue
                if l[1] in bind:
                    cond.append(EQ(bind[l[1]], val))
                else:
                    bind[l[1]] = val
                pending.remove(l)
                progress = True
        if pending:
            raise Unsupported("unresolvable let binding")
        for l in rule["body"]:
            if l[0] == "cmp":
                cond.append(CMP(OPS[l[2]], eval_expr_sym(l[1], bind), eval_expr_sym(l[3], bind)))
            elif l[0] == "neg":
                hits = []
                for r in negs[l[1]]:
                    if len(r.c) != len(l[2]):
                        continue
                    m = [r.p]
                    for t, v in zip(l[2], r.c):
                        if t[0] == "var":
                            m.append(EQ(bind[t[1]], v))
                        elif t[0] in ("const", "sconst"):
                            m.append(EQ(v, t[1]))
                    hits.append(AND(*m))
                cond.append(NOT(OR(*hits)))
        c = AND(*cond)
        if c is not False:
            out.append((S.name_bool(c), bind))
    return out


def head_rows_sym(rule, tables):
    vals = rule_rows_sym(rule, tables)
    hargs = rule["head"][1]

    def plain(t, bind):
        if t[0] == "var":
            return bind[t[1]]
        if t[0] in ("const", "sconst"):
            return t[1]
        return S.name_int(eval_expr_sym(t[1], bind))
    if not any(t[0] == "agg" for t in hargs):
        return [Row(cond, [plain(t, bind) for t in hargs]) for cond, bind in vals]
    # Aggregation (C06): one row per group; valuations are distinct because every table is a
    # set and every column of every atom is bound (anonymous variables included).
    keys = [[plain(t, b) for t in hargs if t[0] != "agg"] for _, b in vals]
    rows = []
    FN = {"count": "Count", "sum": "Sum", "min": "Min", "max": "Max", "count_distinct": "CountDistinct"}
    for i, (cond, bind) in enumerate(vals):
        same = [S.name_bool(AND(vals[j][0], tup_eq(keys[j], keys[i]))) for j in range(len(vals))]
        rep = AND(cond, NOT(OR(*[same[j] for j in range(i)])))
        cols = []
        ki = iter(keys[i])
        for t in hargs:
            if t[0] != "agg":
                cols.append(next(ki))
                continue
            if t[1] not in FN:
                raise Unsupported(f"aggregate {t[1]}")
            xs = [b[t[2]] for _, b in vals]
            cols.append(S.name_int(agg_value(FN[t[1]], same, xs, i)))
        rows.append(Row(S.name_bool(rep), cols))
    return rows


def agg_collision_goal(program, tables):
    """Some aggregate rule has two distinct body valuations in one group that bind the aggregated variable to the
    same value (count vs count_distinct, duplicate-sensitive sums...). Used as a solver-directed witness goal."""
    goals = []
    for rule in program["rules"]:
        hargs = rule["head"][1]
        aggs = [t for t in hargs if t[0] == "agg"]
        if not aggs:
            continue
        try:
            vals = rule_rows_sym(rule, tables)
        except Unsupported:
            continue

        def plain(t, bind):
            return bind[t[1]] if t[0] == "var" else (t[1] if t[0] in ("const", "sconst") else eval_expr_sym(t[1], bind))
        keys = [[plain(t, b) for t in hargs if t[0] != "agg"] for _, b in vals]
        for i in range(len(vals)):
            for j in range(i):
                same_x = AND(*[EQ(vals[i][1][t[2]], vals[j][1][t[2]]) for t in aggs])
                goals.append(AND(vals[i][0], vals[j][0], tup_eq(keys[i], keys[j]), same_x))
    return OR(*goals)


def model_sym(program, edb, k):
    """Perfect model, symbolically.  Returns (tables, conv) where conv are the side conditions
    'round k+1 adds nothing' for each recursive SCC (needed for exactness)."""
    comps, recursive, stratified = sccs(program)
    if not stratified:
        raise Unsupported("program is not stratified")
    tables = dict(edb)
    conv = []
    for comp, rec in zip(comps, recursive):
        rules = [r for r in program["rules"] if r["head"][0] in comp]
        if not rec:
            h = comp[0]
            rows = []
            for r in rules:
                rows.extend(head_rows_sym(r, tables))
            tables[h] = distinct(rows)
            continue
        cur = {h: [] for h in comp}
        hist = []
        for _ in range(k + 1):
            t2 = dict(tables)
            t2.update(cur)
            nxt = {h: [] for h in comp}
            for r in rules:
                nxt[r["head"][0]].extend(head_rows_sym(r, t2))
            cur = {h: distinct(v) for h, v in nxt.items()}
            hist.append(cur)
        conv.append(S.name_bool(AND(*[subset(hist[k][h], hist[k - 1][h]) for h in comp])))
        tables.update(hist[k - 1])
    return tables, conv


# ---------------------------------------------------------------------------------------
# concrete evaluation (replay double-check)
# ---------------------------------------------------------------------------------------

def eval_expr_c(e, bind):
    if e[0] == "var":
        return bind[e[1]]
    if e[0] in ("const", "sconst"):
        return e[1]
    a, b = eval_expr_c(e[2], bind), eval_expr_c(e[3], bind)
    return {"+": a + b, "-": a - b, "*": a * b}[e[1]]


def cmp_c(op, a, b):
    return {"=": a == b, "!=": a != b, "<": a < b, "<=": a <= b, ">": a > b, ">=": a >= b}[op]


def valuations_c(rule, tables):
    pos = [l for l in rule["body"] if l[0] == "pos"]
    lists = [sorted(tables.get(l[1], set())) for l in pos]
    seen = []
    for combo in itertools.product(*lists):
        bind = {}
        ok = True
        anon = []
        for l, row in zip(pos, combo):
            if len(row) != len(l[2]):
                ok = False
                break
            for t, v in zip(l[2], row):
                if t[0] == "var":
                    if t[1] in bind and bind[t[1]] != v:
                        ok = False
                        break
                    bind[t[1]] = v
                elif t[0] in ("const", "sconst"):
                    if v != t[1]:
                        ok = False
                        break
                else:
                    anon.append(v)
            if not ok:
                break
        if not ok:
            continue
        pending = [l for l in rule["body"] if l[0] == "let"]
        progress = True
        while pending and progress and ok:
            progress = False
            for l in list(pending):
                try:
                    val = eval_expr_c(l[2], bind)
                except KeyError:
                    continue
                if l[1] in bind and bind[l[1]] != val:
                    ok = False
                bind[l[1]] = val
                pending.remove(l)
                progress = True
        if not ok:
            continue
        for l in rule["body"]:
            if l[0] == "cmp" and not cmp_c(l[2], eval_expr_c(l[1], bind), eval_expr_c(l[3], bind)):
                ok = False
            elif l[0] == "neg":
                for row in tables.get(l[1], set()):
                    if len(row) != len(l[2]):
                        continue
                    if all((t[0] == "wild") or (t[0] in ("const", "sconst") and v == t[1]) or (t[0] == "var" and bind[t[1]] == v)
                           for t, v in zip(l[2], row)):
                        ok = False
                        break
            if not ok:
                break
        if ok:
            v = (tuple(sorted(bind.items())), tuple(anon))
            if v not in seen:
                seen.append(v)
    return [dict(b) for b, _ in seen]


def head_rows_c(rule, tables):
    vals = valuations_c(rule, tables)
    hargs = rule["head"][1]

    def plain(t, b):
        return b[t[1]] if t[0] == "var" else (t[1] if t[0] in ("const", "sconst") else eval_expr_c(t[1], b))
    if not any(t[0] == "agg" for t in hargs):
        return {tuple(plain(t, b) for t in hargs) for b in vals}
    groups = {}
    for b in vals:
        k = tuple(plain(t, b) for t in hargs if t[0] != "agg")
        groups.setdefault(k, []).append(b)
    out = set()
    for k, bs in groups.items():
        ki = iter(k)
        row = []
        for t in hargs:
            if t[0] != "agg":
                row.append(next(ki))
                continue
            xs = [b[t[2]] for b in bs]
            row.append({"count": len(xs), "sum": sum(xs), "min": min(xs), "max": max(xs),
                        "count_distinct": len(set(xs))}[t[1]])
        out.add(tuple(row))
    return out


def model_c(program, edb, max_rounds=200):
    comps, recursive, stratified = sccs(program)
    if not stratified:
        raise Unsupported("program is not stratified")
    tables = {k: set(map(tuple, v)) for k, v in edb.items()}
    for comp, rec in zip(comps, recursive):
        rules = [r for r in program["rules"] if r["head"][0] in comp]
        if not rec:
            rows = set()
            for r in rules:
                rows |= head_rows_c(r, tables)
            tables[comp[0]] = rows
            continue
        cur = {h: set() for h in comp}
        for _ in range(max_rounds):
            t2 = dict(tables)
            t2.update(cur)
            nxt = {h: set() for h in comp}
            for r in rules:
                nxt[r["head"][0]] |= head_rows_c(r, t2)
            if nxt == cur:
                break
            cur = nxt
        else:
            raise Unsupported("concrete fixpoint did not converge")
        tables.update(cur)
    return tables
