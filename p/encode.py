"""Engine P: symbolic execution of inputlayer query plans (IR JSON dumped from the real
pipeline) over a symbolic extensional database.

A table is a list of Row(p, c): p = presence condition, c = column terms (see smt.py: Python
values when concrete, SMT-LIB strings when symbolic).  Bags are represented by
unit-multiplicity slots, exactly like the engine's (tuple, diff=+1) updates before
consolidation; `Distinct`/the final `distinct_core` turn a bag into a set.

The operator semantics follow src/code_generator/mod.rs generate_collection_tuples
(see /verif/DESIGN.md section 2.2.2).  Anything outside the Int fragment raises
Unsupported, which the drivers count and report (never treated as a pass).
"""
import smt as S
from smt import AND, OR, NOT, EQ, CMP, ADD, SUB, MUL, ITE, SUM, IMPLIES


class Unsupported(Exception):
    pass


MAX_ROWS = 700


class Row:
    __slots__ = ("p", "c")

    def __init__(self, p, c):
        self.p = p
        self.c = list(c)


def tup_eq(a, b):
    if len(a) != len(b):
        return False
    return AND(*[EQ(x, y) for x, y in zip(a, b)])


def named(rows):
    """Name long presence conditions / columns so later operators reference them by symbol."""
    return [Row(S.name_bool(r.p), [S.name_int(c) for c in r.c]) for r in rows]


# ---------------------------------------------------------------------------------------
# symbolic databases
# ---------------------------------------------------------------------------------------

def sym_table(name, arity, n, tag=""):
    return [Row(S.bool_var(f"{tag}{name}!p{i}"),
                [S.int_var(f"{tag}{name}!{i}!{c}") for c in range(arity)]) for i in range(n)]


def edb_constraints(edb, vmax):
    """EDB relations are sets of rows over [-vmax, vmax]; absent slots come last (symmetry cut)."""
    cs = []
    for name, rows in edb.items():
        for i, r in enumerate(rows):
            for c in r.c:
                cs.append(AND(CMP("Ge", c, -vmax), CMP("Le", c, vmax)))
            for j in range(i):
                cs.append(NOT(AND(r.p, rows[j].p, tup_eq(r.c, rows[j].c))))
            if i > 0:
                cs.append(IMPLIES(r.p, rows[i - 1].p))
    return cs


def edb_vars(edb):
    out = []
    for name, rows in edb.items():
        for r in rows:
            out.append((r.p, "Bool"))
            for c in r.c:
                out.append((c, "Int"))
    return out


# ---------------------------------------------------------------------------------------
# predicates and expressions (plan side)
# ---------------------------------------------------------------------------------------

def eval_arith(a, cols, vars_):
    """ast::ArithExpr as eval_arith_runtime evaluates it; returns (value, defined)."""
    k = a["a"]
    if k == "Const":
        return a["val"], True
    if k == "Var":
        idx = vars_.get(a["name"])
        if idx is None or idx >= len(cols):
            return 0, False
        return cols[idx], True
    if k == "Bin":
        l, dl = eval_arith(a["l"], cols, vars_)
        r, dr = eval_arith(a["r"], cols, vars_)
        d = AND(dl, dr)
        op = a["op"]
        if op == "Add":
            return ADD(l, r), d
        if op == "Sub":
            return SUB(l, r), d
        if op == "Mul":
            return MUL(l, r), d
        if not S.is_c(r):
            raise Unsupported("div/mod by non-constant")
        if r == 0:
            return 0, False
        if op == "Div":
            return S.TDIV(l, r), d
        if op == "Mod":
            return S.TMOD(l, r), d
    raise Unsupported(f"arith {k}")


def _str_code(st):
    if isinstance(st, str) and len(st) == 4 and st[0] == "k" and st[1:].isdigit():
        return int(st[1:]) - 500
    return None


def eval_pred(p, cols):
    k = p["p"]
    n = len(cols)
    if k == "True":
        return True
    if k == "False":
        return False
    if k == "And":
        return AND(eval_pred(p["l"], cols), eval_pred(p["r"], cols))
    if k == "Or":
        return OR(eval_pred(p["l"], cols), eval_pred(p["r"], cols))
    if k == "ColConst":
        if p["col"] >= n:
            return p["op"] == "Ne"
        return CMP(p["op"], cols[p["col"]], p["val"])
    if k == "ColStr":
        # string columns are Int codes with the same order (see pengine.str_of)
        code = _str_code(p["val"])
        if code is None:
            raise Unsupported("string constant outside the modelled universe")
        if p["col"] >= n:
            return p["op"] == "Ne"
        return CMP(p["op"], cols[p["col"]], code)
    if k == "Cols":
        l, r, op = p["l"], p["r"], p["op"]
        if op in ("Eq", "Ne"):
            if l >= n and r >= n:
                return op == "Eq"
            if l >= n or r >= n:
                return op == "Ne"
        elif l >= n or r >= n:
            return False
        return CMP(op, cols[l], cols[r])
    if k == "ColArith":
        v, d = eval_arith(p["expr"], cols, p["vars"])
        if p["col"] >= n:
            return False
        return AND(d, CMP(p["op"], cols[p["col"]], v))
    if k == "ArithConst":
        v, d = eval_arith(p["expr"], cols, p["vars"])
        return AND(d, CMP(p["op"], v, p["val"]))
    raise Unsupported(f"predicate {k}")


def eval_expr(e, cols):
    k = e["e"]
    if k == "Col":
        if e["idx"] >= len(cols):
            raise Unsupported("compute column out of range (Null)")
        return cols[e["idx"]]
    if k == "Int":
        return e["val"]
    if k == "Str":
        code = _str_code(e["val"])
        if code is None:
            raise Unsupported("string constant outside the modelled universe")
        return code
    if k == "Arith":
        l = eval_expr(e["l"], cols)
        r = eval_expr(e["r"], cols)
        op = e["op"]
        if op == "Add":
            return ADD(l, r)
        if op == "Sub":
            return SUB(l, r)
        if op == "Mul":
            return MUL(l, r)
        if op == "Mod":
            if not S.is_c(r) or r == 0:
                raise Unsupported("mod by non-constant/zero (Null)")
            return S.TMOD(l, r)
        raise Unsupported("compute Div yields Float64")
    raise Unsupported(f"expression {k}")


def project(cols, proj):
    return [cols[i] for i in proj if i < len(cols)]


# ---------------------------------------------------------------------------------------
# plan semantics
# ---------------------------------------------------------------------------------------

def distinct(rows):
    rows = named(rows)
    out = []
    for j, r in enumerate(rows):
        if r.p is False:
            continue
        dup = OR(*[AND(rows[i].p, tup_eq(rows[i].c, r.c)) for i in range(j)
                   if rows[i].p is not False and len(rows[i].c) == len(r.c)])
        out.append(Row(S.name_bool(AND(r.p, NOT(dup))), r.c))
    return out


class PlanEval:
    """Symbolic evaluator for IR JSON.  `env` maps relation name -> rows."""

    def __init__(self, env, static_env=None, max_rows=None):
        self.env = env
        self.static_env = static_env if static_env is not None else env
        self.max_rows = max_rows if max_rows is not None else MAX_ROWS

    def ev(self, ir):
        rows = [r for r in self._ev(ir) if r.p is not False]
        if len(rows) > self.max_rows:
            raise Unsupported(f"table too large ({len(rows)} rows)")
        return rows

    def _ev(self, ir):
        op = ir["op"]
        if op == "Scan":
            return [Row(r.p, r.c) for r in self.env.get(ir["rel"], [])]
        if op == "Map":
            return [Row(r.p, project(r.c, ir["proj"])) for r in self.ev(ir["input"])]
        if op == "Filter":
            return [Row(AND(r.p, eval_pred(ir["pred"], r.c)), r.c) for r in self.ev(ir["input"])]
        if op == "FlatMap":
            out = []
            for r in self.ev(ir["input"]):
                c = project(r.c, ir["proj"])
                p = r.p if ir.get("pred") is None else AND(r.p, eval_pred(ir["pred"], c))
                out.append(Row(p, c))
            return out
        if op == "Join":
            L, R = named(self.ev(ir["left"])), named(self.ev(ir["right"]))
            if len(L) * len(R) > self.max_rows:
                raise Unsupported(f"table too large ({len(L) * len(R)} rows)")
            lk, rk = ir["lk"], ir["rk"]
            out = []
            cart = not lk and not rk
            for a in L:
                for b in R:
                    if cart:
                        out.append(Row(AND(a.p, b.p), a.c + b.c))
                    else:
                        cond = tup_eq(project(a.c, lk), project(b.c, rk))
                        cols = a.c + [v for i, v in enumerate(b.c) if i not in rk]
                        out.append(Row(AND(a.p, b.p, cond), cols))
            return out
        if op == "JoinFlatMap":
            L, R = named(self.ev(ir["left"])), named(self.ev(ir["right"]))
            if len(L) * len(R) > self.max_rows:
                raise Unsupported(f"table too large ({len(L) * len(R)} rows)")
            lk, rk = ir["lk"], ir["rk"]
            out = []
            for a in L:
                for b in R:
                    if any(i >= len(a.c) for i in lk) or any(i >= len(b.c) for i in rk):
                        raise Unsupported("JoinFlatMap key out of range (engine panics)")
                    cond = tup_eq([a.c[i] for i in lk], [b.c[i] for i in rk])
                    c = project(a.c + b.c, ir["proj"])
                    p = AND(a.p, b.p, cond)
                    if ir.get("pred") is not None:
                        p = AND(p, eval_pred(ir["pred"], c))
                    out.append(Row(p, c))
            return out
        if op == "Antijoin":
            L = named(self.ev(ir["left"]))
            R = named(PlanEval(self.static_env, self.static_env, self.max_rows).ev(ir["right"]))
            lk, rk = ir["lk"], ir["rk"]
            out = []
            for a in L:
                ka = project(a.c, lk)
                hit = OR(*[AND(b.p, tup_eq(ka, project(b.c, rk))) for b in R])
                out.append(Row(AND(a.p, NOT(hit)), a.c))
            return out
        if op == "Distinct":
            return distinct(self.ev(ir["input"]))
        if op == "Union":
            out = []
            for i in ir["inputs"]:
                out.extend(self.ev(i))
            return out
        if op == "Compute":
            out = []
            for r in self.ev(ir["input"]):
                c = list(r.c)
                for _name, e in ir["exprs"]:
                    c.append(S.name_int(eval_expr(e, c)))
                out.append(Row(r.p, c))
            return out
        if op == "Aggregate":
            return aggregate(self.ev(ir["input"]), ir["group_by"], ir["aggs"])
        raise Unsupported(f"operator {op}")


def agg_value(f, same, xs, i):
    """Aggregate over the slots j with same[j] (slot i is the representative, same[i] holds)."""
    n = len(xs)
    if f == "Count":
        return SUM([ITE(sm, 1, 0) for sm in same])
    if f == "Sum":
        return SUM([ITE(same[j], xs[j], 0) for j in range(n)])
    if f in ("Min", "Max"):
        m = xs[i]
        for j in range(n):
            if j == i:
                continue
            better = CMP("Lt" if f == "Min" else "Gt", xs[j], m)
            m = S.name_int(ITE(AND(same[j], better), xs[j], m))
        return m
    if f == "CountDistinct":
        terms = []
        for j in range(n):
            first = NOT(OR(*[AND(same[k], EQ(xs[k], xs[j])) for k in range(j)]))
            terms.append(ITE(AND(same[j], first), 1, 0))
        return SUM(terms)
    raise Unsupported(f"aggregate {f}")


def aggregate(rows, group_by, aggs):
    rows = named(rows)
    out = []
    keys = [project(r.c, group_by) for r in rows]
    for f, col in aggs:
        if not isinstance(f, str):
            raise Unsupported("ranking aggregate")
        if f != "Count" and any(col >= len(x.c) for x in rows):
            raise Unsupported("aggregate column out of range")
    for i, r in enumerate(rows):
        same = [S.name_bool(AND(rows[j].p, tup_eq(keys[j], keys[i]))) for j in range(len(rows))]
        rep = AND(r.p, NOT(OR(*[same[j] for j in range(i)])))
        vals = []
        for f, col in aggs:
            xs = [x.c[col] if col < len(x.c) else 0 for x in rows]
            vals.append(S.name_int(agg_value(f, same, xs, i)))
        out.append(Row(S.name_bool(rep), keys[i] + vals))
    return out


# ---------------------------------------------------------------------------------------
# set comparison
# ---------------------------------------------------------------------------------------

def subset(A, B):
    A, B = named(A), named(B)
    return AND(*[IMPLIES(a.p, OR(*[AND(b.p, tup_eq(a.c, b.c)) for b in B])) for a in A])


def set_eq(A, B):
    return AND(S.name_bool(subset(A, B)), S.name_bool(subset(B, A)))


def nonempty(A):
    return OR(*[a.p for a in A])


def concrete_set(rows):
    """Rows -> set of tuples; all terms must be concrete."""
    out = set()
    for r in rows:
        if r.p is True:
            if not all(S.is_c(c) for c in r.c):
                raise Unsupported("non-constant row in concrete evaluation")
            out.add(tuple(r.c))
        elif r.p is not False:
            raise Unsupported("non-constant row in concrete evaluation")
    return out


# ---------------------------------------------------------------------------------------
# script (orchestration) semantics: what execute_tuples_profiled does with the plans
# ---------------------------------------------------------------------------------------

def closure_rounds(edge_rows, start_rows, k):
    """T0 = start projected to 2 cols; T_{j+1} = distinct(T0 ++ {(x,z) | T_j(x,y), edge(y,z)})."""
    def p2(rows):
        return [Row(r.p, [r.c[0], r.c[1]]) for r in rows if len(r.c) >= 2]
    e2 = named(p2(edge_rows))
    t0 = distinct(p2(start_rows))
    cur = t0
    hist = [cur]
    for _ in range(k):
        if len(cur) * len(e2) > MAX_ROWS:
            raise Unsupported(f"table too large ({len(cur) * len(e2)} rows)")
        step = [Row(AND(a.p, b.p, EQ(a.c[1], b.c[0])), [a.c[0], b.c[1]]) for a in cur for b in e2]
        cur = distinct(t0 + [r for r in step if r.p is not False])
        hist.append(cur)
    return hist


class ScriptResult:
    def __init__(self):
        self.answer = []
        self.conv = []          # convergence conditions that must hold for the model to be exact
        self.steps = []         # (head, rows)
        self.partitioned = []   # heads that were hash-partitioned
        self.strategies = {}    # rel -> kind


def worker_of(W, cols):
    f = S.fun(f"worker!{len(cols)}", len(cols)) if cols else S.int_var("worker!0")
    if not cols:
        return S.MOD_POS(f, W)
    if all(S.is_c(c) for c in cols):
        # concrete tuples still get a symbolic worker (the hash is not modelled)
        pass
    return S.name_int(S.MOD_POS(S.APP(f, cols), W))


def run_script(events, inputs, k):
    """Symbolically replay the recorded orchestration.
    events: list of dumper events for ONE execute_tuples call (concrete witness run).
    inputs: name -> rows (input_tuples at the start of the call, magic seeds included).
    Recursion uses k rounds (+1 for the convergence side condition)."""
    res = ScriptResult()
    accumulated = {}
    i = 0
    n = len(events)

    def env_now():
        e = dict(inputs)
        e.update(accumulated)
        return e

    while i < n:
        ev = events[i]
        kind = ev["ev"]
        if kind == "shared_view":
            rows = distinct(PlanEval(env_now()).ev(ev["ir"]))
            accumulated[ev["name"]] = rows
            res.steps.append((ev["name"], rows))
            i += 1
            continue
        if kind == "rule":
            head = ev["head"]
            env = env_now()
            rec = ev.get("recursive_rel")
            nxt = events[i + 1] if i + 1 < n else None
            if rec:
                if nxt is None or nxt["ev"] != "strategy":
                    raise Unsupported("recursive rule without strategy event")
                rows, conv = run_recursive(nxt, env, rec, k)
                res.conv.append(conv)
                res.strategies[rec] = nxt["strategy"]["kind"]
                i += 2
            elif nxt is not None and nxt["ev"] == "partitioned":
                W = nxt["num_workers"]
                parts = []
                wenv = {name: [(r, worker_of(W, r.c)) for r in rws] for name, rws in env.items()}
                for w in range(W):
                    penv = {name: [Row(AND(r.p, EQ(wk, w)), r.c) for r, wk in rws] for name, rws in wenv.items()}
                    parts.extend(distinct(PlanEval(penv).ev(ev["ir"])))
                rows = distinct(parts)
                res.partitioned.append((head, W))
                i += 2
            else:
                rows = distinct(PlanEval(env).ev(ev["ir"]))
                i += 1
            if head:
                accumulated[head] = rows
            res.steps.append((head, rows))
            res.answer = rows
            continue
        raise Unsupported(f"unexpected event {kind}")
    return res


def run_recursive(strategy_ev, env, rel, k):
    st = strategy_ev["strategy"]
    kind = st["kind"]
    base_irs = strategy_ev["base"]
    rec_irs = strategy_ev["recursive"]
    if kind == "tc":
        edge = env.get(st["edge"], [])
        hist = closure_rounds(edge, edge, k + 1)
        return hist[k], S.name_bool(subset(hist[k + 1], hist[k]))
    if kind == "bound_tc":
        edge = named(env.get(st["edge"], []))
        seeds = named(env.get(st["magic"], []))
        bc = st["bound_col"]
        start = [Row(AND(e.p, OR(*[AND(sd.p, EQ(sd.c[0], e.c[bc])) for sd in seeds if sd.c])), e.c)
                 for e in edge if len(e.c) == 2]
        hist = closure_rounds(edge, start, k + 1)
        fast = hist[k]
        conv_fast = S.name_bool(subset(hist[k + 1], hist[k]))
        # detect_bound_tc_pattern is data dependent: it only fires when the edge relation and the
        # magic relation are non-empty (the witness run had them non-empty); otherwise the general
        # fixpoint runs.  Model both.
        cond = S.name_bool(AND(nonempty(edge), nonempty(seeds)))
        if cond is True:
            return fast, conv_fast
        gen, conv_gen = general_fixpoint(base_irs, rec_irs, env, rel, k)
        rows = [Row(AND(cond, r.p), r.c) for r in fast] + [Row(AND(NOT(cond), r.p), r.c) for r in gen]
        conv = AND(IMPLIES(cond, conv_fast), IMPLIES(NOT(cond), conv_gen))
        return rows, conv
    if kind == "general":
        return general_fixpoint(base_irs, rec_irs, env, rel, k)
    raise Unsupported(f"strategy {kind}")


def general_fixpoint(base_irs, rec_irs, env, rel, k):
    for r in rec_irs:
        if r["op"] == "Aggregate":
            raise Unsupported("recursive aggregation (min/max in loop)")
    base = []
    for b in base_irs:
        base.extend(PlanEval(env).ev(b))
    base = named(base)
    cur = distinct(base)
    hist = [cur]
    for _ in range(k + 1):
        live = dict(env)
        live[rel] = cur
        step = []
        for r in rec_irs:
            step.extend(PlanEval(live, static_env=env).ev(r))
        cur = distinct(base + step)
        hist.append(cur)
    return hist[k], S.name_bool(subset(hist[k + 1], hist[k]))
