"""Engine P: symbolic execution of inputlayer query plans (IR JSON dumped from the real
pipeline) and of reference Datalog semantics, over a symbolic extensional database.

A table is a list of Row(present: z3 Bool, cols: [z3 Int]).  Bags are represented by
unit-multiplicity slots, exactly like the engine's (tuple, diff=+1) updates before
consolidation; `Distinct`/the final `distinct_core` turn a bag into a set.

The operator semantics follow src/code_generator/mod.rs generate_collection_tuples
(see /verif/DESIGN.md section 2.2.2).  Anything outside the Int fragment raises
Unsupported, which the drivers count and report (never treated as a pass).
"""
import itertools
import z3


class Unsupported(Exception):
    pass


class Row:
    __slots__ = ("p", "c")

    def __init__(self, p, c):
        self.p = p
        self.c = list(c)


def T(x=True):
    return z3.BoolVal(bool(x))


def AND(*xs):
    xs = [x for x in xs if not z3.is_true(x)]
    if any(z3.is_false(x) for x in xs):
        return z3.BoolVal(False)
    if not xs:
        return z3.BoolVal(True)
    return xs[0] if len(xs) == 1 else z3.And(*xs)


def OR(*xs):
    xs = [x for x in xs if not z3.is_false(x)]
    if any(z3.is_true(x) for x in xs):
        return z3.BoolVal(True)
    if not xs:
        return z3.BoolVal(False)
    return xs[0] if len(xs) == 1 else z3.Or(*xs)


def NOT(x):
    if z3.is_true(x):
        return z3.BoolVal(False)
    if z3.is_false(x):
        return z3.BoolVal(True)
    return z3.Not(x)


def tup_eq(a, b):
    if len(a) != len(b):
        return z3.BoolVal(False)
    return AND(*[x == y for x, y in zip(a, b)])


def cmp_z3(op, a, b):
    return {"Eq": a == b, "Ne": a != b, "Lt": a < b, "Le": a <= b, "Gt": a > b, "Ge": a >= b}[op]


def trunc_div(a, b):
    """Rust i64 `/` (truncating) for a symbolic a and concrete non-zero b."""
    if not isinstance(b, int) or b == 0:
        raise Unsupported("div by non-constant or zero")
    q = z3.If(a >= 0, a / abs(b), -((-a) / abs(b)))
    return q if b > 0 else -q


def trunc_mod(a, b):
    if not isinstance(b, int) or b == 0:
        raise Unsupported("mod by non-constant or zero")
    return a - trunc_div(a, b) * b


def as_const(e):
    if isinstance(e, int):
        return e
    if z3.is_int_value(e):
        return e.as_long()
    return None


# ---------------------------------------------------------------------------------------
# symbolic databases
# ---------------------------------------------------------------------------------------

def sym_table(name, arity, n, tag=""):
    return [Row(z3.Bool(f"{tag}{name}!p{i}"),
                [z3.Int(f"{tag}{name}!{i}!{c}") for c in range(arity)]) for i in range(n)]


def edb_constraints(edb, vmax):
    """EDB relations are sets of rows over [-vmax, vmax]; absent slots are canonical
    (zeros, and absent slots come last) to cut symmetric models."""
    cs = []
    for name, rows in edb.items():
        for i, r in enumerate(rows):
            for c in r.c:
                cs.append(z3.And(c >= -vmax, c <= vmax))
            for j in range(i):
                cs.append(z3.Not(z3.And(r.p, rows[j].p, tup_eq(r.c, rows[j].c))))
            if i > 0:
                cs.append(z3.Implies(r.p, rows[i - 1].p))
    return cs


# ---------------------------------------------------------------------------------------
# predicates and expressions (plan side)
# ---------------------------------------------------------------------------------------

def eval_arith(a, cols, vars_):
    """ast::ArithExpr as eval_arith_runtime evaluates it; returns (value, defined)."""
    k = a["a"]
    if k == "Const":
        return z3.IntVal(a["val"]), T()
    if k == "Var":
        idx = vars_.get(a["name"])
        if idx is None or idx >= len(cols):
            return z3.IntVal(0), T(False)
        return cols[idx], T()
    if k == "Bin":
        l, dl = eval_arith(a["l"], cols, vars_)
        r, dr = eval_arith(a["r"], cols, vars_)
        d = AND(dl, dr)
        op = a["op"]
        if op == "Add":
            return l + r, d
        if op == "Sub":
            return l - r, d
        if op == "Mul":
            return l * r, d
        rc = as_const(z3.simplify(r))
        if rc is None:
            raise Unsupported("div/mod by non-constant")
        if rc == 0:
            return z3.IntVal(0), T(False)
        if op == "Div":
            return trunc_div(l, rc), d
        if op == "Mod":
            return trunc_mod(l, rc), d
    raise Unsupported(f"arith {k}")


def eval_pred(p, cols):
    k = p["p"]
    n = len(cols)
    if k == "True":
        return T()
    if k == "False":
        return T(False)
    if k == "And":
        return AND(eval_pred(p["l"], cols), eval_pred(p["r"], cols))
    if k == "Or":
        return OR(eval_pred(p["l"], cols), eval_pred(p["r"], cols))
    if k == "ColConst":
        if p["col"] >= n:
            return T(p["op"] == "Ne")
        return cmp_z3(p["op"], cols[p["col"]], z3.IntVal(p["val"]))
    if k == "Cols":
        l, r, op = p["l"], p["r"], p["op"]
        if op in ("Eq", "Ne"):
            if l >= n and r >= n:
                return T(op == "Eq")
            if l >= n or r >= n:
                return T(op == "Ne")
        elif l >= n or r >= n:
            return T(False)
        return cmp_z3(op, cols[l], cols[r])
    if k == "ColArith":
        v, d = eval_arith(p["expr"], cols, p["vars"])
        if p["col"] >= n:
            return T(False)
        return AND(d, cmp_z3(p["op"], cols[p["col"]], v))
    if k == "ArithConst":
        v, d = eval_arith(p["expr"], cols, p["vars"])
        return AND(d, cmp_z3(p["op"], v, z3.IntVal(p["val"])))
    raise Unsupported(f"predicate {k}")


def eval_expr(e, cols):
    k = e["e"]
    if k == "Col":
        if e["idx"] >= len(cols):
            raise Unsupported("compute column out of range (Null)")
        return cols[e["idx"]]
    if k == "Int":
        return z3.IntVal(e["val"])
    if k == "Arith":
        l = eval_expr(e["l"], cols)
        r = eval_expr(e["r"], cols)
        op = e["op"]
        if op == "Add":
            return l + r
        if op == "Sub":
            return l - r
        if op == "Mul":
            return l * r
        if op == "Mod":
            rc = as_const(z3.simplify(r))
            if rc is None or rc == 0:
                raise Unsupported("mod by non-constant/zero (Null)")
            return trunc_mod(l, rc)
        raise Unsupported("compute Div yields Float64")
    raise Unsupported(f"expression {k}")


def project(cols, proj):
    return [cols[i] for i in proj if i < len(cols)]


# ---------------------------------------------------------------------------------------
# plan semantics
# ---------------------------------------------------------------------------------------

def distinct(rows):
    out = []
    for j, r in enumerate(rows):
        dup = OR(*[AND(rows[i].p, tup_eq(rows[i].c, r.c)) for i in range(j) if len(rows[i].c) == len(r.c)])
        out.append(Row(AND(r.p, NOT(dup)), r.c))
    return out


class PlanEval:
    """Symbolic evaluator for IR JSON.  `env` maps relation name -> rows."""

    def __init__(self, env, static_env=None, max_rows=4000):
        self.env = env
        self.static_env = static_env if static_env is not None else env
        self.max_rows = max_rows

    def ev(self, ir):
        rows = self._ev(ir)
        if len(rows) > self.max_rows:
            raise Unsupported(f"table too large ({len(rows)} rows)")
        return rows

    def _ev(self, ir):
        op = ir["op"]
        if op == "Scan":
            return [Row(r.p, r.c) for r in self.env.get(ir["rel"], [])]
        if op == "Map":
            return [Row(r.p, project(r.c, ir["proj"])) for r in self.ev(ir["input"])]
        if op == "Filter":
            return [Row(AND(r.p, eval_pred(ir["pred"], r.c)), r.c) for r in self.ev(ir["input"])]
        if op == "FlatMap":
            out = []
            for r in self.ev(ir["input"]):
                c = project(r.c, ir["proj"])
                p = r.p if ir.get("pred") is None else AND(r.p, eval_pred(ir["pred"], c))
                out.append(Row(p, c))
            return out
        if op == "Join":
            L, R = self.ev(ir["left"]), self.ev(ir["right"])
            lk, rk = ir["lk"], ir["rk"]
            out = []
            cart = not lk and not rk
            for a in L:
                for b in R:
                    if cart:
                        out.append(Row(AND(a.p, b.p), a.c + b.c))
                    else:
                        cond = tup_eq(project(a.c, lk), project(b.c, rk))
                        cols = a.c + [v for i, v in enumerate(b.c) if i not in rk]
                        out.append(Row(AND(a.p, b.p, cond), cols))
            return out
        if op == "JoinFlatMap":
            L, R = self.ev(ir["left"]), self.ev(ir["right"])
            lk, rk = ir["lk"], ir["rk"]
            out = []
            for a in L:
                for b in R:
                    if any(i >= len(a.c) for i in lk) or any(i >= len(b.c) for i in rk):
                        raise Unsupported("JoinFlatMap key out of range (engine panics)")
                    cond = tup_eq([a.c[i] for i in lk], [b.c[i] for i in rk])
                    c = project(a.c + b.c, ir["proj"])
                    p = AND(a.p, b.p, cond)
                    if ir.get("pred") is not None:
                        p = AND(p, eval_pred(ir["pred"], c))
                    out.append(Row(p, c))
            return out
        if op == "Antijoin":
            L = self.ev(ir["left"])
            R = PlanEval(self.static_env, self.static_env, self.max_rows).ev(ir["right"])
            lk, rk = ir["lk"], ir["rk"]
            out = []
            for a in L:
                ka = project(a.c, lk)
                hit = OR(*[AND(b.p, tup_eq(ka, project(b.c, rk))) for b in R])
                out.append(Row(AND(a.p, NOT(hit)), a.c))
            return out
        if op == "Distinct":
            return distinct(self.ev(ir["input"]))
        if op == "Union":
            out = []
            for i in ir["inputs"]:
                out.extend(self.ev(i))
            return out
        if op == "Compute":
            out = []
            for r in self.ev(ir["input"]):
                c = list(r.c)
                for _name, e in ir["exprs"]:
                    c.append(eval_expr(e, c))
                out.append(Row(r.p, c))
            return out
        if op == "Aggregate":
            return aggregate(self.ev(ir["input"]), ir["group_by"], ir["aggs"])
        raise Unsupported(f"operator {op}")


def aggregate(rows, group_by, aggs):
    out = []
    keys = [project(r.c, group_by) for r in rows]
    for i, r in enumerate(rows):
        same = [AND(rows[j].p, tup_eq(keys[j], keys[i])) for j in range(len(rows))]
        rep = AND(r.p, NOT(OR(*[same[j] for j in range(i)])))
        vals = []
        for f, col in aggs:
            if not isinstance(f, str):
                raise Unsupported("ranking aggregate")
            if f == "Count":
                vals.append(z3.Sum([z3.If(s, 1, 0) for s in same]) if same else z3.IntVal(0))
                continue
            if any(col >= len(x.c) for x in rows):
                raise Unsupported("aggregate column out of range")
            if f == "Sum":
                vals.append(z3.Sum([z3.If(same[j], rows[j].c[col], 0) for j in range(len(rows))]))
            elif f in ("Min", "Max"):
                m = r.c[col]
                for j in range(len(rows)):
                    better = rows[j].c[col] < m if f == "Min" else rows[j].c[col] > m
                    m = z3.If(AND(same[j], better), rows[j].c[col], m)
                vals.append(m)
            elif f == "CountDistinct":
                terms = []
                for j in range(len(rows)):
                    first = NOT(OR(*[AND(same[k], rows[k].c[col] == rows[j].c[col]) for k in range(j)]))
                    terms.append(z3.If(AND(same[j], first), 1, 0))
                vals.append(z3.Sum(terms))
            else:
                raise Unsupported(f"aggregate {f}")
        out.append(Row(rep, keys[i] + vals))
    return out


# ---------------------------------------------------------------------------------------
# set comparison
# ---------------------------------------------------------------------------------------

def subset(A, B):
    return AND(*[z3.Implies(a.p, OR(*[AND(b.p, tup_eq(a.c, b.c)) for b in B])) for a in A])


def set_eq(A, B):
    return AND(subset(A, B), subset(B, A))


def nonempty(A):
    return OR(*[a.p for a in A])


# ---------------------------------------------------------------------------------------
# script (orchestration) semantics: what execute_tuples_profiled does with the plans
# ---------------------------------------------------------------------------------------

def closure_rounds(edge_rows, start_rows, k):
    """T0 = start projected to 2 cols; T_{j+1} = distinct(T0 ++ {(x,z) | T_j(x,y), edge(y,z)})."""
    def p2(rows):
        return [Row(r.p, [r.c[0], r.c[1]]) for r in rows if len(r.c) >= 2]
    e2 = p2(edge_rows)
    t0 = distinct(p2(start_rows))
    cur = t0
    hist = [cur]
    for _ in range(k):
        step = [Row(AND(a.p, b.p, a.c[1] == b.c[0]), [a.c[0], b.c[1]]) for a in cur for b in e2]
        cur = distinct(t0 + step)
        hist.append(cur)
    return hist


class ScriptResult:
    def __init__(self):
        self.answer = []
        self.conv = []          # convergence conditions that must hold for the model to be exact
        self.steps = []         # (head, rows)
        self.partitioned = []   # heads that were hash-partitioned
        self.strategies = {}    # rel -> kind


def worker_fn(W, arity):
    return z3.Function(f"worker!{arity}", *([z3.IntSort()] * arity + [z3.IntSort()]))


def run_script(events, inputs, k, workers=1):
    """Symbolically replay the recorded orchestration.
    events: list of dumper events for ONE execute_tuples call (concrete witness run).
    inputs: name -> rows (symbolic input_tuples at the start of the call, magic seeds included).
    Returns ScriptResult.  Recursion uses k rounds (+1 for the convergence side condition)."""
    res = ScriptResult()
    accumulated = {}
    views_done = False
    i = 0
    n = len(events)

    def env_now():
        e = dict(inputs)
        e.update(accumulated)
        return e

    while i < n:
        ev = events[i]
        kind = ev["ev"]
        if kind == "shared_view":
            env = env_now()
            rows = distinct(PlanEval(env).ev(ev["ir"]))
            accumulated[ev["name"]] = rows
            res.steps.append((ev["name"], rows))
            i += 1
            continue
        if kind == "rule":
            head = ev["head"]
            env = env_now()
            rec = ev.get("recursive_rel")
            nxt = events[i + 1] if i + 1 < n else None
            if rec:
                if nxt is None or nxt["ev"] != "strategy":
                    raise Unsupported("recursive rule without strategy event")
                rows, conv = run_recursive(nxt, env, rec, k)
                res.conv.append(conv)
                res.strategies[rec] = nxt["strategy"]["kind"]
                i += 2
            elif nxt is not None and nxt["ev"] == "partitioned":
                W = nxt["num_workers"]
                parts = []
                for w in range(W):
                    penv = {}
                    for name, rws in env.items():
                        penv[name] = [Row(AND(r.p, (worker_fn(W, len(r.c))(*r.c) if r.c
                                                     else z3.Int("worker!0")) % W == w), r.c) for r in rws]
                    parts.extend(distinct(PlanEval(penv).ev(ev["ir"])))
                rows = distinct(parts)
                res.partitioned.append((head, W))
                i += 2
            else:
                rows = distinct(PlanEval(env).ev(ev["ir"]))
                i += 1
            if head:
                accumulated[head] = rows
            res.steps.append((head, rows))
            res.answer = rows
            continue
        raise Unsupported(f"unexpected event {kind}")
    return res


def worker_constraints(res, env_rows=None):
    """Range constraints for the uninterpreted worker functions used in run_script."""
    return []


def run_recursive(strategy_ev, env, rel, k):
    st = strategy_ev["strategy"]
    kind = st["kind"]
    base_irs = strategy_ev["base"]
    rec_irs = strategy_ev["recursive"]
    if kind == "tc":
        edge = env.get(st["edge"], [])
        hist = closure_rounds(edge, edge, k + 1)
        conv = subset(hist[k + 1], hist[k])
        # the engine returns [] when the edge relation is empty; closure of [] is [] as well
        return hist[k], conv
    if kind == "bound_tc":
        edge = env.get(st["edge"], [])
        seeds = env.get(st["magic"], [])
        bc = st["bound_col"]
        start = [Row(AND(e.p, OR(*[AND(s.p, len(s.c) > 0 and s.c[0] == e.c[bc]) for s in seeds if s.c])), e.c)
                 for e in edge if len(e.c) == 2]
        hist = closure_rounds(edge, start, k + 1)
        fast = hist[k]
        conv_fast = subset(hist[k + 1], hist[k])
        # detect_bound_tc_pattern is data dependent: it only fires when the edge relation and
        # the magic relation are non-empty and edge tuples have 2 columns; otherwise the general
        # fixpoint runs.  Our witness run had them non-empty, so model both.
        gen, conv_gen = general_fixpoint(base_irs, rec_irs, env, rel, k)
        cond = AND(nonempty(edge), nonempty(seeds))
        rows = [Row(AND(cond, r.p), r.c) for r in fast] + [Row(AND(NOT(cond), r.p), r.c) for r in gen]
        conv = z3.If(cond, conv_fast, conv_gen)
        return rows, conv
    if kind == "general":
        return general_fixpoint(base_irs, rec_irs, env, rel, k)
    raise Unsupported(f"strategy {kind}")


def general_fixpoint(base_irs, rec_irs, env, rel, k):
    for r in rec_irs:
        if r["op"] == "Aggregate":
            raise Unsupported("recursive aggregation (min/max in loop)")
    base = []
    for b in base_irs:
        base.extend(PlanEval(env).ev(b))
    cur = distinct(base)
    hist = [cur]
    for _ in range(k + 1):
        live = dict(env)
        live[rel] = cur
        step = []
        for r in rec_irs:
            step.extend(PlanEval(live, static_env=env).ev(r))
        cur = distinct(base + step)
        hist.append(cur)
    conv = subset(hist[k + 1], hist[k])
    return hist[k], conv
