//! Engine P bridge: runs the real inputlayer pipeline on concrete jobs and
//! dumps what it did (plans, orchestration events, answers) as JSON.
//!
//! Protocol: one JSON job per input line on stdin, one JSON reply per line on stdout.
//! Jobs:
//!   {"job":"run", "program":str, "config":[b,b,b,b,b], "workers":n, "edb":{rel:[[int..]..]},
//!    "history":[str..], "arity":{rel:n}}          -> events, answer, inputs_after
//!   {"job":"build", "program":str}                -> unoptimized IR per head (parse + build_ir only)
//!   {"job":"rewrite", "ir":IR, "pass":str}        -> IR after the named pass
//!   {"job":"exec_ir", "ir":IR, "edb":{..}}        -> tuples produced by CodeGenerator::execute
//!   {"job":"contains_join", "ir":IR}              -> bool
mod irjson;

use inputlayer::verif_hooks::{self, Event, Strategy};
use inputlayer::{
    BooleanSpecializer, CodeGenerator, IQLEngine, JoinPlanner, OptimizationConfig, Optimizer,
    SubplanSharer, Tuple, Value,
};
use irjson::{ir_from_json, ir_to_json};
use serde_json::{json, Value as J};
use std::collections::{BTreeMap, HashSet};
use std::io::{BufRead, Write};

fn tuples_from_json(rows: &J) -> Vec<Tuple> {
    rows.as_array()
        .map(|a| {
            a.iter()
                .map(|r| {
                    Tuple::new(
                        r.as_array()
                            .map(|c| {
                                c.iter()
                                    .map(|x| match x.as_str() {
                                        Some(st) => Value::string(st),
                                        None => Value::Int64(x.as_i64().unwrap_or(0)),
                                    })
                                    .collect()
                            })
                            .unwrap_or_default(),
                    )
                })
                .collect()
        })
        .unwrap_or_default()
}

fn value_to_json(v: &Value) -> J {
    match v {
        Value::Int64(i) => json!(i),
        Value::Int32(i) => json!({"i32": i}),
        Value::Float64(f) => json!({"f64": f}),
        Value::Bool(b) => json!({"bool": b}),
        Value::Null => J::Null,
        Value::String(st) => json!(st.to_string()),
        other => json!({"other": format!("{other:?}")}),
    }
}

fn tuples_to_json(ts: &[Tuple]) -> J {
    J::Array(
        ts.iter()
            .map(|t| J::Array(t.values().iter().map(value_to_json).collect()))
            .collect(),
    )
}

fn config_from(j: &J) -> OptimizationConfig {
    let b = |i: usize| j.get(i).and_then(J::as_bool).unwrap_or(true);
    OptimizationConfig {
        enable_join_planning: b(0),
        enable_sip_rewriting: b(1),
        enable_subplan_sharing: b(2),
        enable_boolean_specialization: b(3),
        enable_magic_sets: b(4),
    }
}

fn load_edb(engine: &mut IQLEngine, edb: &J) {
    if let Some(m) = edb.as_object() {
        // deterministic order
        let sorted: BTreeMap<_, _> = m.iter().collect();
        for (rel, rows) in sorted {
            let ts = tuples_from_json(rows);
            if ts.is_empty() {
                // register nothing: an empty relation is simply absent (as in the engine)
                engine.add_tuples(rel, Vec::new());
            } else {
                engine.add_tuples(rel, ts);
            }
        }
    }
}

fn events_to_json(evs: Vec<Event>) -> J {
    J::Array(
        evs.into_iter()
            .map(|e| match e {
                Event::SharedView { name, ir } => json!({"ev":"shared_view","name":name,"ir":ir_to_json(&ir)}),
                Event::Rule { index, head, recursive_rel, num_workers, semiring, ir } => json!({
                    "ev":"rule","index":index,"head":head,"recursive_rel":recursive_rel,
                    "num_workers":num_workers,"semiring":semiring,"ir":ir_to_json(&ir)}),
                Event::RecursiveStrategy { rel, strategy, base, recursive } => {
                    let s = match strategy {
                        Strategy::TransitiveClosure { edge } => json!({"kind":"tc","edge":edge}),
                        Strategy::BoundTransitiveClosure { edge, magic, bound_col } => {
                            json!({"kind":"bound_tc","edge":edge,"magic":magic,"bound_col":bound_col})
                        }
                        Strategy::General => json!({"kind":"general"}),
                    };
                    json!({"ev":"strategy","rel":rel,"strategy":s,
                           "base":base.iter().map(ir_to_json).collect::<Vec<_>>(),
                           "recursive":recursive.iter().map(ir_to_json).collect::<Vec<_>>()})
                }
                Event::Partitioned { num_workers } => json!({"ev":"partitioned","num_workers":num_workers}),
            })
            .collect(),
    )
}

fn inputs_to_json(engine: &IQLEngine) -> J {
    let mut m = serde_json::Map::new();
    let sorted: BTreeMap<_, _> = engine.input_tuples().iter().collect();
    for (k, v) in sorted {
        m.insert(k.clone(), tuples_to_json(v));
    }
    J::Object(m)
}

fn job_run(j: &J) -> J {
    let cfg = config_from(&j["config"]);
    let mut engine = IQLEngine::with_config(cfg);
    let workers = j["workers"].as_u64().unwrap_or(1) as usize;
    engine.set_num_workers(workers);
    load_edb(&mut engine, &j["edb"]);
    let mut hist_results = Vec::new();
    if let Some(h) = j["history"].as_array() {
        for p in h {
            let r = engine.execute_tuples(p.as_str().unwrap_or(""));
            hist_results.push(match r {
                Ok(t) => json!({"ok": tuples_to_json(&t)}),
                Err(e) => json!({"err": e}),
            });
        }
    }
    let inputs_before = inputs_to_json(&engine);
    verif_hooks::start_recording();
    let r = engine.execute_tuples(j["program"].as_str().unwrap_or(""));
    let evs = verif_hooks::take_recording();
    let inputs_after = inputs_to_json(&engine);
    match r {
        Ok(t) => json!({"ok": true, "answer": tuples_to_json(&t), "events": events_to_json(evs),
                        "inputs_before": inputs_before, "inputs_after": inputs_after, "history": hist_results}),
        Err(e) => json!({"ok": false, "error": e, "events": events_to_json(evs),
                         "inputs_before": inputs_before, "inputs_after": inputs_after, "history": hist_results}),
    }
}

fn job_build(j: &J) -> J {
    let mut engine = IQLEngine::with_config(OptimizationConfig {
        enable_join_planning: false,
        enable_sip_rewriting: false,
        enable_subplan_sharing: false,
        enable_boolean_specialization: false,
        enable_magic_sets: false,
    });
    load_edb(&mut engine, &j["edb"]);
    if let Err(e) = engine.parse(j["program"].as_str().unwrap_or("")) {
        return json!({"ok": false, "error": e});
    }
    if let Err(e) = engine.build_ir(false) {
        return json!({"ok": false, "error": e});
    }
    let heads: Vec<String> = {
        let mut seen = HashSet::new();
        let mut v = Vec::new();
        if let Some(p) = engine.program() {
            for r in &p.rules {
                if seen.insert(r.head.relation.clone()) {
                    v.push(r.head.relation.clone());
                }
            }
        }
        v
    };
    json!({"ok": true, "heads": heads, "irs": engine.ir_nodes().iter().map(ir_to_json).collect::<Vec<_>>()})
}

fn job_rewrite(j: &J) -> J {
    let ir = match ir_from_json(&j["ir"]) {
        Ok(i) => i,
        Err(e) => return json!({"ok": false, "error": e}),
    };
    let pass = j["pass"].as_str().unwrap_or("");
    let out = std::panic::catch_unwind(std::panic::AssertUnwindSafe(|| match pass {
        "optimize" => Some((Optimizer::new().optimize(ir.clone()), J::Null)),
        "plan_joins" => Some((JoinPlanner::new().plan_joins(ir.clone()), J::Null)),
        "specialize" => {
            let (i, a) = BooleanSpecializer::new().specialize(ir.clone());
            Some((i, json!({"semiring": format!("{:?}", a.semiring)})))
        }
        "share_subplans" => {
            let derived: HashSet<String> = j["derived"]
                .as_array()
                .map(|a| a.iter().filter_map(|x| x.as_str().map(String::from)).collect())
                .unwrap_or_default();
            let (irs, views) = SubplanSharer::new().share_subplans(vec![ir.clone()], &derived);
            let mut vm = serde_json::Map::new();
            let sorted: BTreeMap<_, _> = views.iter().collect();
            for (k, v) in sorted {
                vm.insert(k.clone(), ir_to_json(v));
            }
            irs.into_iter().next().map(|i| (i, json!({"views": vm})))
        }
        p => Optimizer::new().verif_pass(p, ir.clone()).map(|i| (i, J::Null)),
    }));
    match out {
        Ok(Some((i, extra))) => json!({"ok": true, "ir": ir_to_json(&i), "extra": extra}),
        Ok(None) => json!({"ok": false, "error": format!("unknown pass {pass}")}),
        Err(_) => json!({"ok": false, "error": "panic in pass", "panic": true}),
    }
}

/// Subplan sharing over ALL heads of a program at once (cross-rule sharing), as optimize_ir does.
fn job_share_all(j: &J) -> J {
    let irs: Result<Vec<_>, String> = j["irs"].as_array().map(|a| a.iter().map(ir_from_json).collect()).unwrap_or(Ok(vec![]));
    let irs = match irs {
        Ok(i) => i,
        Err(e) => return json!({"ok": false, "error": e}),
    };
    let derived: HashSet<String> = j["derived"]
        .as_array()
        .map(|a| a.iter().filter_map(|x| x.as_str().map(String::from)).collect())
        .unwrap_or_default();
    let out = std::panic::catch_unwind(std::panic::AssertUnwindSafe(|| {
        SubplanSharer::new().share_subplans(irs.clone(), &derived)
    }));
    match out {
        Ok((new_irs, views)) => {
            let mut vm = serde_json::Map::new();
            let sorted: BTreeMap<_, _> = views.iter().collect();
            for (k, v) in sorted {
                vm.insert(k.clone(), ir_to_json(v));
            }
            json!({"ok": true, "irs": new_irs.iter().map(ir_to_json).collect::<Vec<_>>(), "views": vm})
        }
        Err(_) => json!({"ok": false, "error": "panic in share_subplans", "panic": true}),
    }
}

/// Native run of the private pagination helper on rows [0, 1, .., len-1] (engine M replay / translator validation).
fn job_paginate(j: &J) -> J {
    use inputlayer::protocol::handler::verif_apply_pagination;
    use inputlayer::protocol::wire::{WireTuple, WireValue};
    let len = j["len"].as_u64().unwrap_or(0) as usize;
    if len > 100_000 {
        return json!({"ok": false, "error": "len too large for native replay"});
    }
    let rows: Vec<WireTuple> = (0..len).map(|i| WireTuple::new(vec![WireValue::Int64(i as i64)])).collect();
    let limit = j["limit"].as_u64().map(|x| x as usize);
    let offset = j["offset"].as_u64().map(|x| x as usize);
    let out = std::panic::catch_unwind(|| verif_apply_pagination(rows, limit, offset));
    match out {
        Ok(v) => {
            let idx: Vec<i64> = v
                .iter()
                .map(|t| match t.values.first() {
                    Some(WireValue::Int64(i)) => *i,
                    _ => -1,
                })
                .collect();
            json!({"ok": true, "rows": idx})
        }
        Err(_) => json!({"ok": true, "panic": true}),
    }
}

fn bloom_make(j: &J) -> Result<inputlayer::bloom_filter::BloomFilter, String> {
    use inputlayer::bloom_filter::BloomFilter;
    let ctor = j["ctor"].as_str().unwrap_or("with_params").to_string();
    let m = j["m"].as_u64().unwrap_or(64) as usize;
    let k = j["k"].as_u64().unwrap_or(1) as usize;
    let n = j["n"].as_u64().unwrap_or(1) as usize;
    let p = j["p"].as_f64().unwrap_or(0.01);
    if m > (1usize << 26) || n > (1usize << 22) {
        return Err("shape too large for native replay".into());
    }
    std::panic::catch_unwind(move || if ctor == "new" { BloomFilter::new(n, p) } else { BloomFilter::with_params(m, k) })
        .map_err(|_| "constructor panicked".to_string())
}

/// Real BloomFilter: shape, hash pairs, bit indices, bit array, membership; or a search for a failing key.
fn job_bloom(j: &J) -> J {
    use std::panic::{catch_unwind, AssertUnwindSafe};
    let mut f = match bloom_make(j) {
        Ok(f) => f,
        Err(e) => return json!({"ok": false, "error": e}),
    };
    if let Some(nsearch) = j["search"].as_u64() {
        // replay aid: look for a key that the real filter loses (or that panics) under three short histories
        for key in 0..nsearch {
            for hist in 0..3u32 {
                let mut g = match bloom_make(j) {
                    Ok(g) => g,
                    Err(e) => return json!({"ok": false, "error": e}),
                };
                let r = catch_unwind(AssertUnwindSafe(|| {
                    g.insert(&key);
                    if hist == 1 {
                        for o in 1..4u64 {
                            g.insert(&(key.wrapping_mul(7919).wrapping_add(o)));
                        }
                    }
                    if hist == 2 {
                        g.clear();
                        g.insert(&key);
                    }
                    g.might_contain(&key)
                }));
                match r {
                    Ok(true) => {}
                    Ok(false) => return json!({"ok": true, "fail_key": key, "history": hist, "kind": "false-negative"}),
                    Err(_) => return json!({"ok": true, "fail_key": key, "history": hist, "kind": "panic"}),
                }
            }
        }
        return json!({"ok": true, "fail_key": J::Null});
    }
    let keys: Vec<u64> = j["keys"].as_array().map(|a| a.iter().filter_map(|x| x.as_u64()).collect()).unwrap_or_default();
    let k = f.num_hashes();
    let mut per_key = vec![];
    for key in &keys {
        let (h1, h2) = f.verif_hash_pair(key);
        let idx: Vec<u64> = (0..k).map(|i| f.verif_get_bit_index(h1, h2, i) as u64).collect();
        per_key.push(json!({"key": key, "h1": h1, "h2": h2, "idx": idx}));
    }
    let r = catch_unwind(AssertUnwindSafe(|| {
        for key in &keys {
            f.insert(key);
        }
    }));
    if r.is_err() {
        return json!({"ok": true, "panic": true});
    }
    let words = f.verif_bits().len();
    let bits: Vec<u64> = if words <= 64 { f.verif_bits().to_vec() } else { vec![] };
    let contains: Vec<bool> = keys.iter().map(|x| f.might_contain(x)).collect();
    json!({"ok": true, "num_bits": f.num_bits() as u64, "num_hashes": k as u64, "words": words as u64, "len": f.len() as u64,
           "keys": per_key, "bits": bits, "contains": contains})
}

fn job_exec_ir(j: &J) -> J {
    let ir = match ir_from_json(&j["ir"]) {
        Ok(i) => i,
        Err(e) => return json!({"ok": false, "error": e}),
    };
    let mut cg = CodeGenerator::new();
    if let Some(m) = j["edb"].as_object() {
        for (rel, rows) in m {
            cg.add_input(rel.clone(), tuples_from_json(rows));
        }
    }
    let workers = j["workers"].as_u64().unwrap_or(1) as usize;
    verif_hooks::start_recording();
    let r = if workers > 1 {
        cg.execute_with_config(&ir, inputlayer::code_generator::ExecutionConfig::with_workers(workers))
    } else {
        cg.execute(&ir)
    };
    let evs = verif_hooks::take_recording();
    match r {
        Ok(t) => json!({"ok": true, "answer": tuples_to_json(&t), "events": events_to_json(evs)}),
        Err(e) => json!({"ok": false, "error": e}),
    }
}

fn main() {
    let stdin = std::io::stdin();
    let stdout = std::io::stdout();
    for line in stdin.lock().lines() {
        let Ok(line) = line else { break };
        if line.trim().is_empty() {
            continue;
        }
        let reply = match serde_json::from_str::<J>(&line) {
            Err(e) => json!({"ok": false, "error": format!("bad job: {e}")}),
            Ok(j) => {
                let r = std::panic::catch_unwind(std::panic::AssertUnwindSafe(|| {
                    match j["job"].as_str().unwrap_or("") {
                        "run" => job_run(&j),
                        "build" => job_build(&j),
                        "rewrite" => job_rewrite(&j),
                        "exec_ir" => job_exec_ir(&j),
                        "share_all" => job_share_all(&j),
                        "paginate" => job_paginate(&j),
                        "bloom" => job_bloom(&j),
                        "contains_join" => match ir_from_json(&j["ir"]) {
                            Ok(i) => json!({"ok": true, "contains_join": CodeGenerator::verif_contains_join(&i)}),
                            Err(e) => json!({"ok": false, "error": e}),
                        },
                        other => json!({"ok": false, "error": format!("unknown job {other}")}),
                    }
                }));
                r.unwrap_or_else(|_| json!({"ok": false, "error": "panic", "panic": true}))
            }
        };
        let mut o = stdout.lock();
        let _ = writeln!(o, "{reply}");
        let _ = o.flush();
    }
}
