//! IRNode <-> JSON (Int fragment is structural; everything else is tagged "Unsupported").
use inputlayer::ast::{ArithExpr, ArithOp as AstOp, ComparisonOp};
use inputlayer::ir::{AggregateFunction, ArithOp, IRExpression, IRNode, Predicate};
use serde_json::{json, Value as J};
use std::collections::{BTreeMap, HashMap};

fn cmp_name(op: &ComparisonOp) -> &'static str {
    match op {
        ComparisonOp::Equal => "Eq",
        ComparisonOp::NotEqual => "Ne",
        ComparisonOp::LessThan => "Lt",
        ComparisonOp::LessOrEqual => "Le",
        ComparisonOp::GreaterThan => "Gt",
        ComparisonOp::GreaterOrEqual => "Ge",
    }
}
fn cmp_from(s: &str) -> Result<ComparisonOp, String> {
    Ok(match s {
        "Eq" => ComparisonOp::Equal,
        "Ne" => ComparisonOp::NotEqual,
        "Lt" => ComparisonOp::LessThan,
        "Le" => ComparisonOp::LessOrEqual,
        "Gt" => ComparisonOp::GreaterThan,
        "Ge" => ComparisonOp::GreaterOrEqual,
        o => return Err(format!("bad cmp {o}")),
    })
}

fn arith_to_json(a: &ArithExpr) -> J {
    match a {
        ArithExpr::Variable(n) => json!({"a":"Var","name":n}),
        ArithExpr::Constant(v) => json!({"a":"Const","val":v}),
        ArithExpr::FloatConstant(b) => json!({"a":"Unsupported","kind":"FloatConstant","bits":b}),
        ArithExpr::Binary { op, left, right } => {
            let o = match op {
                AstOp::Add => "Add",
                AstOp::Sub => "Sub",
                AstOp::Mul => "Mul",
                AstOp::Div => "Div",
                AstOp::Mod => "Mod",
            };
            json!({"a":"Bin","op":o,"l":arith_to_json(left),"r":arith_to_json(right)})
        }
    }
}
fn arith_from(j: &J) -> Result<ArithExpr, String> {
    match j["a"].as_str().unwrap_or("") {
        "Var" => Ok(ArithExpr::Variable(j["name"].as_str().unwrap_or("").to_string())),
        "Const" => Ok(ArithExpr::Constant(j["val"].as_i64().ok_or("val")?)),
        "Bin" => {
            let op = match j["op"].as_str().unwrap_or("") {
                "Add" => AstOp::Add,
                "Sub" => AstOp::Sub,
                "Mul" => AstOp::Mul,
                "Div" => AstOp::Div,
                "Mod" => AstOp::Mod,
                o => return Err(format!("bad arith op {o}")),
            };
            Ok(ArithExpr::Binary {
                op,
                left: Box::new(arith_from(&j["l"])?),
                right: Box::new(arith_from(&j["r"])?),
            })
        }
        o => Err(format!("bad arith {o}")),
    }
}

fn vars_to_json(m: &HashMap<String, usize>) -> J {
    let s: BTreeMap<_, _> = m.iter().collect();
    json!(s)
}
fn vars_from(j: &J) -> HashMap<String, usize> {
    j.as_object()
        .map(|m| m.iter().map(|(k, v)| (k.clone(), v.as_u64().unwrap_or(0) as usize)).collect())
        .unwrap_or_default()
}

pub fn pred_to_json(p: &Predicate) -> J {
    use Predicate::*;
    let cc = |op: &str, c: &usize, v: &i64| json!({"p":"ColConst","op":op,"col":c,"val":v});
    let cs = |op: &str, l: &usize, r: &usize| json!({"p":"Cols","op":op,"l":l,"r":r});
    match p {
        ColumnEqConst(c, v) => cc("Eq", c, v),
        ColumnNeConst(c, v) => cc("Ne", c, v),
        ColumnGtConst(c, v) => cc("Gt", c, v),
        ColumnLtConst(c, v) => cc("Lt", c, v),
        ColumnGeConst(c, v) => cc("Ge", c, v),
        ColumnLeConst(c, v) => cc("Le", c, v),
        ColumnEqStr(c, v) => json!({"p":"ColStr","op":"Eq","col":c,"val":v}),
        ColumnNeStr(c, v) => json!({"p":"ColStr","op":"Ne","col":c,"val":v}),
        ColumnLtStr(c, v) => json!({"p":"ColStr","op":"Lt","col":c,"val":v}),
        ColumnGtStr(c, v) => json!({"p":"ColStr","op":"Gt","col":c,"val":v}),
        ColumnLeStr(c, v) => json!({"p":"ColStr","op":"Le","col":c,"val":v}),
        ColumnGeStr(c, v) => json!({"p":"ColStr","op":"Ge","col":c,"val":v}),
        ColumnsEq(l, r) => cs("Eq", l, r),
        ColumnsNe(l, r) => cs("Ne", l, r),
        ColumnsLt(l, r) => cs("Lt", l, r),
        ColumnsGt(l, r) => cs("Gt", l, r),
        ColumnsLe(l, r) => cs("Le", l, r),
        ColumnsGe(l, r) => cs("Ge", l, r),
        ColumnCompareArith(c, op, e, m) => {
            json!({"p":"ColArith","col":c,"op":cmp_name(op),"expr":arith_to_json(e),"vars":vars_to_json(m)})
        }
        ArithCompareConst(e, op, v, m) => {
            json!({"p":"ArithConst","expr":arith_to_json(e),"op":cmp_name(op),"val":v,"vars":vars_to_json(m)})
        }
        And(a, b) => json!({"p":"And","l":pred_to_json(a),"r":pred_to_json(b)}),
        Or(a, b) => json!({"p":"Or","l":pred_to_json(a),"r":pred_to_json(b)}),
        True => json!({"p":"True"}),
        False => json!({"p":"False"}),
        other => json!({"p":"Unsupported","debug":format!("{other:?}")}),
    }
}

pub fn pred_from(j: &J) -> Result<Predicate, String> {
    use Predicate::*;
    let u = |k: &str| -> Result<usize, String> { j[k].as_u64().map(|x| x as usize).ok_or(format!("missing {k}")) };
    match j["p"].as_str().unwrap_or("") {
        "ColConst" => {
            let (c, v) = (u("col")?, j["val"].as_i64().ok_or("val")?);
            Ok(match j["op"].as_str().unwrap_or("") {
                "Eq" => ColumnEqConst(c, v),
                "Ne" => ColumnNeConst(c, v),
                "Gt" => ColumnGtConst(c, v),
                "Lt" => ColumnLtConst(c, v),
                "Ge" => ColumnGeConst(c, v),
                "Le" => ColumnLeConst(c, v),
                o => return Err(format!("bad op {o}")),
            })
        }
        "ColStr" => {
            let (c, v) = (u("col")?, j["val"].as_str().ok_or("val")?.to_string());
            Ok(match j["op"].as_str().unwrap_or("") {
                "Eq" => ColumnEqStr(c, v),
                "Ne" => ColumnNeStr(c, v),
                "Lt" => ColumnLtStr(c, v),
                "Gt" => ColumnGtStr(c, v),
                "Le" => ColumnLeStr(c, v),
                "Ge" => ColumnGeStr(c, v),
                o => return Err(format!("bad op {o}")),
            })
        }
        "Cols" => {
            let (l, r) = (u("l")?, u("r")?);
            Ok(match j["op"].as_str().unwrap_or("") {
                "Eq" => ColumnsEq(l, r),
                "Ne" => ColumnsNe(l, r),
                "Gt" => ColumnsGt(l, r),
                "Lt" => ColumnsLt(l, r),
                "Ge" => ColumnsGe(l, r),
                "Le" => ColumnsLe(l, r),
                o => return Err(format!("bad op {o}")),
            })
        }
        "ColArith" => Ok(ColumnCompareArith(
            u("col")?,
            cmp_from(j["op"].as_str().unwrap_or(""))?,
            arith_from(&j["expr"])?,
            vars_from(&j["vars"]),
        )),
        "ArithConst" => Ok(ArithCompareConst(
            arith_from(&j["expr"])?,
            cmp_from(j["op"].as_str().unwrap_or(""))?,
            j["val"].as_i64().ok_or("val")?,
            vars_from(&j["vars"]),
        )),
        "And" => Ok(And(Box::new(pred_from(&j["l"])?), Box::new(pred_from(&j["r"])?))),
        "Or" => Ok(Or(Box::new(pred_from(&j["l"])?), Box::new(pred_from(&j["r"])?))),
        "True" => Ok(True),
        "False" => Ok(False),
        o => Err(format!("bad pred {o}")),
    }
}

fn expr_to_json(e: &IRExpression) -> J {
    match e {
        IRExpression::Column(i) => json!({"e":"Col","idx":i}),
        IRExpression::IntConstant(v) => json!({"e":"Int","val":v}),
        IRExpression::StringConstant(v) => json!({"e":"Str","val":v}),
        IRExpression::Arithmetic { op, left, right } => {
            let o = match op {
                ArithOp::Add => "Add",
                ArithOp::Sub => "Sub",
                ArithOp::Mul => "Mul",
                ArithOp::Div => "Div",
                ArithOp::Mod => "Mod",
            };
            json!({"e":"Arith","op":o,"l":expr_to_json(left),"r":expr_to_json(right)})
        }
        other => json!({"e":"Unsupported","debug":format!("{other:?}")}),
    }
}
fn expr_from(j: &J) -> Result<IRExpression, String> {
    match j["e"].as_str().unwrap_or("") {
        "Col" => Ok(IRExpression::Column(j["idx"].as_u64().ok_or("idx")? as usize)),
        "Int" => Ok(IRExpression::IntConstant(j["val"].as_i64().ok_or("val")?)),
        "Str" => Ok(IRExpression::StringConstant(j["val"].as_str().ok_or("val")?.to_string())),
        "Arith" => {
            let op = match j["op"].as_str().unwrap_or("") {
                "Add" => ArithOp::Add,
                "Sub" => ArithOp::Sub,
                "Mul" => ArithOp::Mul,
                "Div" => ArithOp::Div,
                "Mod" => ArithOp::Mod,
                o => return Err(format!("bad op {o}")),
            };
            Ok(IRExpression::Arithmetic {
                op,
                left: Box::new(expr_from(&j["l"])?),
                right: Box::new(expr_from(&j["r"])?),
            })
        }
        o => Err(format!("bad expr {o}")),
    }
}

fn agg_to_json(a: &AggregateFunction) -> J {
    match a {
        AggregateFunction::Count => json!("Count"),
        AggregateFunction::CountDistinct => json!("CountDistinct"),
        AggregateFunction::Sum => json!("Sum"),
        AggregateFunction::Min => json!("Min"),
        AggregateFunction::Max => json!("Max"),
        AggregateFunction::Avg => json!("Avg"),
        other => json!({"Unsupported": format!("{other:?}")}),
    }
}
fn agg_from(j: &J) -> Result<AggregateFunction, String> {
    Ok(match j.as_str().unwrap_or("") {
        "Count" => AggregateFunction::Count,
        "CountDistinct" => AggregateFunction::CountDistinct,
        "Sum" => AggregateFunction::Sum,
        "Min" => AggregateFunction::Min,
        "Max" => AggregateFunction::Max,
        "Avg" => AggregateFunction::Avg,
        o => return Err(format!("bad agg {o}")),
    })
}

pub fn ir_to_json(ir: &IRNode) -> J {
    let mut j = ir_to_json_inner(ir);
    if let Some(m) = j.as_object_mut() {
        m.insert("schema".to_string(), json!(ir.output_schema()));
    }
    j
}

fn ir_to_json_inner(ir: &IRNode) -> J {
    let w = ir.output_schema().len();
    match ir {
        IRNode::Scan { relation, schema } => json!({"op":"Scan","rel":relation,"schema":schema,"w":w}),
        IRNode::Map { input, projection, .. } => json!({"op":"Map","input":ir_to_json(input),"proj":projection,"w":w}),
        IRNode::Filter { input, predicate } => json!({"op":"Filter","input":ir_to_json(input),"pred":pred_to_json(predicate),"w":w}),
        IRNode::Join { left, right, left_keys, right_keys, .. } => {
            json!({"op":"Join","left":ir_to_json(left),"right":ir_to_json(right),"lk":left_keys,"rk":right_keys,"w":w})
        }
        IRNode::Distinct { input } => json!({"op":"Distinct","input":ir_to_json(input),"w":w}),
        IRNode::Union { inputs } => json!({"op":"Union","inputs":inputs.iter().map(ir_to_json).collect::<Vec<_>>(),"w":w}),
        IRNode::Aggregate { input, group_by, aggregations, .. } => json!({
            "op":"Aggregate","input":ir_to_json(input),"group_by":group_by,
            "aggs":aggregations.iter().map(|(f,c)| json!([agg_to_json(f), c])).collect::<Vec<_>>(),"w":w}),
        IRNode::Antijoin { left, right, left_keys, right_keys, .. } => {
            json!({"op":"Antijoin","left":ir_to_json(left),"right":ir_to_json(right),"lk":left_keys,"rk":right_keys,"w":w})
        }
        IRNode::Compute { input, expressions } => json!({
            "op":"Compute","input":ir_to_json(input),
            "exprs":expressions.iter().map(|(n,e)| json!([n, expr_to_json(e)])).collect::<Vec<_>>(),"w":w}),
        IRNode::HnswScan { .. } => json!({"op":"Unsupported","kind":"HnswScan","w":w}),
        IRNode::FlatMap { input, projection, filter_predicate, .. } => json!({
            "op":"FlatMap","input":ir_to_json(input),"proj":projection,
            "pred":filter_predicate.as_ref().map(pred_to_json),"w":w}),
        IRNode::JoinFlatMap { left, right, left_keys, right_keys, projection, filter_predicate, .. } => json!({
            "op":"JoinFlatMap","left":ir_to_json(left),"right":ir_to_json(right),"lk":left_keys,"rk":right_keys,
            "proj":projection,"pred":filter_predicate.as_ref().map(pred_to_json),"w":w}),
    }
}

fn usizes(j: &J) -> Vec<usize> {
    j.as_array().map(|a| a.iter().map(|x| x.as_u64().unwrap_or(0) as usize).collect()).unwrap_or_default()
}
fn names(n: usize) -> Vec<String> {
    (0..n).map(|i| format!("c{i}")).collect()
}
/// The node's recorded output schema when present (passes key on column names), else c0..c{n-1}.
fn schema_or(j: &J, n: usize) -> Vec<String> {
    match j["schema"].as_array() {
        Some(a) if a.len() == n => a.iter().map(|x| x.as_str().unwrap_or("").to_string()).collect(),
        _ => names(n),
    }
}

/// JSON -> IRNode. Output schemas are synthesised as c0..c{w-1} from the "w" field
/// (or derived bottom-up when absent), matching what the IR builder would declare.
pub fn ir_from_json(j: &J) -> Result<IRNode, String> {
    let bx = |k: &str| -> Result<Box<IRNode>, String> { Ok(Box::new(ir_from_json(&j[k])?)) };
    let opt_pred = |k: &str| -> Result<Option<Predicate>, String> {
        if j[k].is_null() { Ok(None) } else { Ok(Some(pred_from(&j[k])?)) }
    };
    match j["op"].as_str().unwrap_or("") {
        "Scan" => {
            let schema: Vec<String> = match j["schema"].as_array() {
                Some(a) => a.iter().map(|x| x.as_str().unwrap_or("").to_string()).collect(),
                None => names(j["w"].as_u64().unwrap_or(0) as usize),
            };
            Ok(IRNode::Scan { relation: j["rel"].as_str().unwrap_or("").to_string(), schema })
        }
        "Map" => {
            let p = usizes(&j["proj"]);
            Ok(IRNode::Map { input: bx("input")?, output_schema: schema_or(j, p.len()), projection: p })
        }
        "Filter" => Ok(IRNode::Filter { input: bx("input")?, predicate: pred_from(&j["pred"])? }),
        "Join" => {
            let (l, r) = (bx("left")?, bx("right")?);
            let (lk, rk) = (usizes(&j["lk"]), usizes(&j["rk"]));
            let lw = l.output_schema().len();
            let rw = r.output_schema().len();
            let mut distinct_rk = rk.clone();
            distinct_rk.sort_unstable();
            distinct_rk.dedup();
            let w = if lk.is_empty() && rk.is_empty() { lw + rw } else { lw + rw.saturating_sub(distinct_rk.len()) };
            Ok(IRNode::Join { left: l, right: r, left_keys: lk, right_keys: rk, output_schema: schema_or(j, w) })
        }
        "Distinct" => Ok(IRNode::Distinct { input: bx("input")? }),
        "Union" => Ok(IRNode::Union {
            inputs: j["inputs"].as_array().ok_or("inputs")?.iter().map(ir_from_json).collect::<Result<_, _>>()?,
        }),
        "Aggregate" => {
            let g = usizes(&j["group_by"]);
            let aggs: Vec<(AggregateFunction, usize)> = j["aggs"]
                .as_array()
                .ok_or("aggs")?
                .iter()
                .map(|a| Ok((agg_from(&a[0])?, a[1].as_u64().unwrap_or(0) as usize)))
                .collect::<Result<_, String>>()?;
            let w = g.len() + aggs.len();
            Ok(IRNode::Aggregate { input: bx("input")?, group_by: g, aggregations: aggs, output_schema: schema_or(j, w) })
        }
        "Antijoin" => {
            let l = bx("left")?;
            let w = l.output_schema().len();
            Ok(IRNode::Antijoin {
                left: l,
                right: bx("right")?,
                left_keys: usizes(&j["lk"]),
                right_keys: usizes(&j["rk"]),
                output_schema: schema_or(j, w),
            })
        }
        "Compute" => Ok(IRNode::Compute {
            input: bx("input")?,
            expressions: j["exprs"]
                .as_array()
                .ok_or("exprs")?
                .iter()
                .map(|e| Ok((e[0].as_str().unwrap_or("x").to_string(), expr_from(&e[1])?)))
                .collect::<Result<_, String>>()?,
        }),
        "FlatMap" => {
            let p = usizes(&j["proj"]);
            Ok(IRNode::FlatMap {
                input: bx("input")?,
                output_schema: schema_or(j, p.len()),
                projection: p,
                filter_predicate: opt_pred("pred")?,
            })
        }
        "JoinFlatMap" => {
            let p = usizes(&j["proj"]);
            Ok(IRNode::JoinFlatMap {
                left: bx("left")?,
                right: bx("right")?,
                left_keys: usizes(&j["lk"]),
                right_keys: usizes(&j["rk"]),
                output_schema: schema_or(j, p.len()),
                projection: p,
                filter_predicate: opt_pred("pred")?,
            })
        }
        o => Err(format!("bad op {o}")),
    }
}
