//! Native replay of a Kani counterexample: `ilk-replay <harness> <b,b,..;b,b,..;...>`
//! exit 1 = the law is violated natively (counterexample reproduces)
//! exit 0 = body passes natively (does not reproduce)
//! exit 3 = unknown harness / assumption violated / inputs exhausted
fn main() {
    let a: Vec<String> = std::env::args().collect();
    if a.len() < 3 {
        eprintln!("usage: ilk-replay <harness> <vals>");
        std::process::exit(3);
    }
    let vals: Vec<Vec<u8>> = a[2]
        .split(';')
        .filter(|s| !s.is_empty())
        .map(|g| {
            g.split(',')
                .filter(|s| !s.is_empty())
                .map(|b| b.trim().parse::<u8>().expect("byte"))
                .collect()
        })
        .collect();
    let mut s = ilk::NativeSrc::new(vals);
    let name = a[1].clone();
    let r = std::panic::catch_unwind(std::panic::AssertUnwindSafe(|| ilk::run_native(&name, &mut s)));
    let r = match r {
        Ok(r) => r,
        Err(_) => {
            println!("REPLAY violated: panic in real code");
            std::process::exit(1);
        }
    };
    match r {
        None => {
            eprintln!("unknown harness {}", a[1]);
            std::process::exit(3);
        }
        Some(r) => {
            use ilk::Src;
            if s.assumption_violated() {
                println!("REPLAY assumption-violated");
                std::process::exit(3);
            }
            if s.exhausted {
                println!("REPLAY inputs-exhausted");
                std::process::exit(3);
            }
            match r {
                Ok(()) => {
                    println!("REPLAY pass");
                    std::process::exit(0);
                }
                Err(m) => {
                    println!("REPLAY violated: {m}");
                    std::process::exit(1);
                }
            }
        }
    }
}
