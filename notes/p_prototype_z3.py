import z3, time, itertools
# Table = list of (present: Bool, cols: [Int])
def scan(name, arity, n):
    return [(z3.Bool(f"{name}_p{i}"), [z3.Int(f"{name}_{i}_{c}") for c in range(arity)]) for i in range(n)]
def filt(t, pred): return [(z3.And(p, pred(c)), c) for p,c in t]
def proj(t, idx): return [(p, [c[i] for i in idx]) for p,c in t]
def join(l, r, lk, rk, drop_keys=True):
    out=[]
    for (pl,cl) in l:
        for (pr,cr) in r:
            cond = z3.And(pl, pr, *[cl[a]==cr[b] for a,b in zip(lk,rk)])
            cols = cl + [v for i,v in enumerate(cr) if not (drop_keys and i in rk)]
            out.append((cond, cols))
    return out
def subset(a,b):
    return z3.And(*[z3.Implies(pa, z3.Or(*[z3.And(pb, *[x==y for x,y in zip(ca,cb)]) for pb,cb in b])) for pa,ca in a])
t0=time.time()
N=3
a=scan("a",2,N); b=scan("b",2,N)
# before: Map[0,2](Filter(col2>5)(Join(a,b,lk=[1],rk=[0])))
before = proj(filt(join(a,b,[1],[0]), lambda c: c[2]>5),[0,2])
# after (buggy): JoinFlatMap(a, Filter(col0>5)(b), proj [0,3])
after = proj(join(a, filt(b, lambda c:c[0]>5), [1],[0], drop_keys=False),[0,3])
s=z3.Solver()
s.add(z3.Not(z3.And(subset(before,after), subset(after,before))))
r=s.check(); print(r, time.time()-t0)
if r==z3.sat:
    m=s.model()
    for name,t in (("a",a),("b",b)):
        print(name,[[m.eval(c,model_completion=True) for c in cols] for p,cols in t if z3.is_true(m.eval(p,model_completion=True))])
# fixed version: filter col1>5
after2 = proj(join(a, filt(b, lambda c:c[1]>5), [1],[0], drop_keys=False),[0,3])
s=z3.Solver(); s.add(z3.Not(z3.And(subset(before,after2), subset(after2,before))))
t0=time.time(); print(s.check(), time.time()-t0)
