//! C35 — result ordering: `compare_wire_values` is a total preorder (what `sort_by` needs).
use crate::{check, cover, harness, NativeBody, NativeSrc, Src};
use inputlayer::protocol::handler::verif_compare_wire_values as cmpw;
use inputlayer::protocol::wire::WireValue;
use std::cmp::Ordering;

/// Arbitrary optional wire value. Kinds: absent column, Null, Int32, Int64, Float64 (every
/// bit pattern), Bool, Timestamp, String from {"a","b"}, and empty Vector/VectorInt8/Bytes.
pub fn any_wire<S: Src>(s: &mut S) -> Option<WireValue> {
    let k = s.u8();
    s.assume(k < 11);
    match k {
        0 => None,
        1 => Some(WireValue::Null),
        2 => Some(WireValue::Int32(s.i32())),
        3 => Some(WireValue::Int64(s.i64())),
        4 => Some(WireValue::Float64(s.f64())),
        5 => Some(WireValue::Bool(s.bool())),
        6 => Some(WireValue::Timestamp(s.i64())),
        7 => Some(WireValue::String(String::from(if s.bool() { "a" } else { "b" }))),
        8 => Some(WireValue::Vector(Vec::new())),
        9 => Some(WireValue::VectorInt8(Vec::new())),
        _ => Some(WireValue::Bytes(Vec::new())),
    }
}

/// numeric kinds only (Int64 / Float64): the cross-type numeric comparison
pub fn any_num<S: Src>(s: &mut S) -> Option<WireValue> {
    if s.bool() {
        Some(WireValue::Int64(s.i64()))
    } else {
        Some(WireValue::Float64(s.f64()))
    }
}

fn laws2(a: &Option<WireValue>, b: &Option<WireValue>) -> Result<(), String> {
    check!(cmpw(a.as_ref(), a.as_ref()) == Ordering::Equal, "reflexive");
    check!(
        cmpw(a.as_ref(), b.as_ref()) == cmpw(b.as_ref(), a.as_ref()).reverse(),
        "antisymmetry"
    );
    Ok(())
}

fn laws3(a: &Option<WireValue>, b: &Option<WireValue>, c: &Option<WireValue>) -> Result<(), String> {
    let ab = cmpw(a.as_ref(), b.as_ref());
    let bc = cmpw(b.as_ref(), c.as_ref());
    let ac = cmpw(a.as_ref(), c.as_ref());
    if ab != Ordering::Greater && bc != Ordering::Greater {
        check!(ac != Ordering::Greater, "transitivity of <=");
    }
    if ab == Ordering::Equal && bc == Ordering::Equal {
        check!(ac == Ordering::Equal, "transitivity of Equal");
    }
    if ab == Ordering::Less && bc != Ordering::Greater {
        check!(ac == Ordering::Less, "a<b<=c => a<c");
    }
    Ok(())
}

pub fn b_pair<S: Src>(s: &mut S) -> Result<(), String> {
    let a = any_wire(s);
    let b = any_wire(s);
    cover!(matches!((&a, &b), (Some(WireValue::Int64(_)), Some(WireValue::Float64(_)))), "int vs float");
    cover!(a.is_none() && b.is_some(), "absent vs present");
    let r = laws2(&a, &b);
    std::mem::forget(a);
    std::mem::forget(b);
    r
}
harness!(c35_pair, b_pair, 4);

pub fn b_triple<S: Src>(s: &mut S) -> Result<(), String> {
    let a = any_wire(s);
    let b = any_wire(s);
    let c = any_wire(s);
    cover!(
        cmpw(a.as_ref(), b.as_ref()) == Ordering::Less && cmpw(b.as_ref(), c.as_ref()) == Ordering::Less,
        "strict chain"
    );
    let r = laws3(&a, &b, &c);
    std::mem::forget(a);
    std::mem::forget(b);
    std::mem::forget(c);
    r
}
harness!(c35_triple, b_triple, 4);

pub fn b_num_triple<S: Src>(s: &mut S) -> Result<(), String> {
    let a = any_num(s);
    let b = any_num(s);
    let c = any_num(s);
    cover!(
        matches!((&a, &b, &c), (Some(WireValue::Int64(_)), Some(WireValue::Float64(_)), Some(WireValue::Int64(_)))),
        "int-float-int"
    );
    laws2(&a, &b)?;
    laws3(&a, &b, &c)
}
harness!(c35_num_triple, b_num_triple, 4);

pub fn register(v: &mut Vec<(&'static str, NativeBody)>) {
    v.push(("c35_pair", b_pair::<NativeSrc>));
    v.push(("c35_triple", b_triple::<NativeSrc>));
    v.push(("c35_num_triple", b_num_triple::<NativeSrc>));
}
