//! C35 — result ordering: `compare_wire_values` is a total preorder (what `sort_by` needs).
use crate::{check, cover, harness, NativeBody, NativeSrc, Src};
use inputlayer::protocol::handler::verif_compare_wire_values as cmpw;
use inputlayer::protocol::wire::WireValue;
use std::cmp::Ordering;

/// Arbitrary optional wire value. Kinds: absent column, Null, Int32, Int64, Float64 (every
/// bit pattern), Bool, Timestamp, String from {"a","b"}, and empty Vector/VectorInt8/Bytes.
pub fn any_wire<S: Src>(s: &mut S) -> Option<WireValue> {
    let k = s.u8();
    s.assume(k < 11);
    match k {
        0 => None,
        1 => Some(WireValue::Null),
        2 => Some(WireValue::Int32(s.i32())),
        3 => Some(WireValue::Int64(s.i64())),
        4 => Some(WireValue::Float64(s.f64())),
        5 => Some(WireValue::Bool(s.bool())),
        6 => Some(WireValue::Timestamp(s.i64())),
        7 => Some(WireValue::String(String::from(if s.bool() { "a" } else { "b" }))),
        8 => Some(WireValue::Vector(Vec::new())),
        9 => Some(WireValue::VectorInt8(Vec::new())),
        _ => Some(WireValue::Bytes(Vec::new())),
    }
}

/// numeric kinds only (Int64 / Float64): the cross-type numeric comparison
pub fn any_num<S: Src>(s: &mut S) -> Option<WireValue> {
    if s.bool() {
        Some(WireValue::Int64(s.i64()))
    } else {
        Some(WireValue::Float64(s.f64()))
    }
}

fn laws2(a: &Option<WireValue>, b: &Option<WireValue>) -> Result<(), String> {
    check!(cmpw(a.as_ref(), a.as_ref()) == Ordering::Equal, "reflexive");
    check!(
        cmpw(a.as_ref(), b.as_ref()) == cmpw(b.as_ref(), a.as_ref()).reverse(),
        "antisymmetry"
    );
    Ok(())
}

fn laws3(a: &Option<WireValue>, b: &Option<WireValue>, c: &Option<WireValue>) -> Result<(), String> {
    let ab = cmpw(a.as_ref(), b.as_ref());
    let bc = cmpw(b.as_ref(), c.as_ref());
    let ac = cmpw(a.as_ref(), c.as_ref());
    if ab != Ordering::Greater && bc != Ordering::Greater {
        check!(ac != Ordering::Greater, "transitivity of <=");
    }
    if ab == Ordering::Equal && bc == Ordering::Equal {
        check!(ac == Ordering::Equal, "transitivity of Equal");
    }
    if ab == Ordering::Less && bc != Ordering::Greater {
        check!(ac == Ordering::Less, "a<b<=c => a<c");
    }
    Ok(())
}

pub fn b_pair<S: Src>(s: &mut S) -> Result<(), String> {
    let a = any_wire(s);
    let b = any_wire(s);
    cover!(matches!((&a, &b), (Some(WireValue::Int64(_)), Some(WireValue::Float64(_)))), "int vs float");
    cover!(a.is_none() && b.is_some(), "absent vs present");
    let r = laws2(&a, &b);
    std::mem::forget(a);
    std::mem::forget(b);
    r
}
harness!(c35_pair, b_pair, 4);

pub fn b_triple<S: Src>(s: &mut S) -> Result<(), String> {
    let a = any_wire(s);
    let b = any_wire(s);
    let c = any_wire(s);
    cover!(
        cmpw(a.as_ref(), b.as_ref()) == Ordering::Less && cmpw(b.as_ref(), c.as_ref()) == Ordering::Less,
        "strict chain"
    );
    let r = laws3(&a, &b, &c);
    std::mem::forget(a);
    std::mem::forget(b);
    std::mem::forget(c);
    r
}
harness!(c35_triple, b_triple, 4);

pub fn b_num_triple<S: Src>(s: &mut S) -> Result<(), String> {
    let a = any_num(s);
    let b = any_num(s);
    let c = any_num(s);
    cover!(
        matches!((&a, &b, &c), (Some(WireValue::Int64(_)), Some(WireValue::Float64(_)), Some(WireValue::Int64(_)))),
        "int-float-int"
    );
    laws2(&a, &b)?;
    laws3(&a, &b, &c)
}
harness!(c35_num_triple, b_num_triple, 4);

/// sort_rows on two one-column rows with numeric values: never panics, output is a permutation
/// of the input in the requested direction
pub fn b_sort2<S: Src>(s: &mut S) -> Result<(), String> {
    use inputlayer::protocol::handler::verif_sort_rows;
    use inputlayer::protocol::wire::WireTuple;
    use inputlayer::statement::SortDirection;
    let a = any_num(s);
    let b = any_num(s);
    let desc = s.bool();
    let (a2, b2) = (a.clone(), b.clone());
    let rows = vec![WireTuple::new(vec![a.unwrap()]), WireTuple::new(vec![b.unwrap()])];
    let dir = if desc { SortDirection::Desc } else { SortDirection::Asc };
    let out = verif_sort_rows(rows, &[(0, dir)]);
    let mut r = Ok(());
    if out.len() != 2 {
        r = Err(String::from("sort changes the number of rows"));
    } else {
        let c = cmpw(out[0].values.get(0), out[1].values.get(0));
        let bad = if desc { c == Ordering::Less } else { c == Ordering::Greater };
        if bad {
            r = Err(String::from("rows out of order after sort"));
        }
        let same = |x: Option<&WireValue>, y: &Option<WireValue>| cmpw(x, y.as_ref()) == Ordering::Equal;
        let keep = (same(out[0].values.get(0), &a2) && same(out[1].values.get(0), &b2))
            || (same(out[0].values.get(0), &b2) && same(out[1].values.get(0), &a2));
        if !keep {
            r = Err(String::from("sort output is not a permutation of its input"));
        }
    }
    cover!(desc, "descending");
    std::mem::forget(out);
    r
}
harness!(c35_sort2, b_sort2, 4);

/// apply_pagination on three rows: exactly rows[offset .. offset+limit]
pub fn b_page3<S: Src>(s: &mut S) -> Result<(), String> {
    use inputlayer::protocol::handler::verif_apply_pagination;
    use inputlayer::protocol::wire::WireTuple;
    let rows = vec![
        WireTuple::new(vec![WireValue::Int64(10)]),
        WireTuple::new(vec![WireValue::Int64(11)]),
        WireTuple::new(vec![WireValue::Int64(12)]),
    ];
    let has_l = s.bool();
    let has_o = s.bool();
    let l = s.u8() as usize;
    let o = s.u8() as usize;
    let limit = if has_l { Some(l) } else { None };
    let offset = if has_o { Some(o) } else { None };
    let out = verif_apply_pagination(rows, limit, offset);
    let start = if has_o { o } else { 0 };
    let avail = if start >= 3 { 0 } else { 3 - start };
    let want = if has_l && l < avail { l } else { avail };
    let mut r = Ok(());
    if out.len() != want {
        r = Err(String::from("page has the wrong number of rows"));
    } else {
        let mut i = 0;
        while i < out.len() {
            let ok = matches!(out[i].values.get(0), Some(WireValue::Int64(v)) if *v == 10 + (start + i) as i64);
            if !ok {
                r = Err(String::from("page is not the requested slice"));
            }
            i += 1;
        }
    }
    cover!(want == 2, "two-row page");
    std::mem::forget(out);
    r
}
harness!(c35_page3, b_page3, 5);

/// apply_pagination on two rows (one Int64 value each): exactly rows[offset .. offset+limit]
pub fn b_page2<S: Src>(s: &mut S) -> Result<(), String> {
    use inputlayer::protocol::handler::verif_apply_pagination;
    use inputlayer::protocol::wire::WireTuple;
    let rows = vec![WireTuple::new(vec![WireValue::Int64(10)]), WireTuple::new(vec![WireValue::Int64(11)])];
    let has_l = s.bool();
    let has_o = s.bool();
    let l = s.u8() as usize;
    let o = s.u8() as usize;
    s.assume(l <= 3 && o <= 3);
    let limit = if has_l { Some(l) } else { None };
    let offset = if has_o { Some(o) } else { None };
    let out = verif_apply_pagination(rows, limit, offset);
    let start = if has_o { o } else { 0 };
    let avail = if start >= 2 { 0 } else { 2 - start };
    let want = if has_l && l < avail { l } else { avail };
    let mut r = Ok(());
    if out.len() != want {
        r = Err(String::from("page has the wrong number of rows"));
    } else {
        let mut i = 0;
        while i < out.len() {
            let ok = matches!(out[i].values.get(0), Some(WireValue::Int64(v)) if *v == 10 + (start + i) as i64);
            if !ok {
                r = Err(String::from("page is not the requested slice"));
            }
            i += 1;
        }
    }
    cover!(want == 1 && start == 1, "second row only");
    std::mem::forget(out);
    r
}
harness!(c35_page2, b_page2, 4);

/// apply_pagination on three empty rows: only the number of rows returned
pub fn b_pagelen3<S: Src>(s: &mut S) -> Result<(), String> {
    use inputlayer::protocol::handler::verif_apply_pagination;
    use inputlayer::protocol::wire::WireTuple;
    let rows = vec![WireTuple::new(Vec::new()), WireTuple::new(Vec::new()), WireTuple::new(Vec::new())];
    let has_l = s.bool();
    let has_o = s.bool();
    let l = s.u8() as usize;
    let o = s.u8() as usize;
    let limit = if has_l { Some(l) } else { None };
    let offset = if has_o { Some(o) } else { None };
    let out = verif_apply_pagination(rows, limit, offset);
    let start = if has_o { o } else { 0 };
    let avail = if start >= 3 { 0 } else { 3 - start };
    let want = if has_l && l < avail { l } else { avail };
    let r = if out.len() != want { Err(String::from("page has the wrong number of rows")) } else { Ok(()) };
    cover!(want == 2, "two-row page");
    std::mem::forget(out);
    r
}
harness!(c35_pagelen3, b_pagelen3, 5);

pub fn register(v: &mut Vec<(&'static str, NativeBody)>) {
    v.push(("c35_page2", b_page2::<NativeSrc>));
    v.push(("c35_pagelen3", b_pagelen3::<NativeSrc>));
    v.push(("c35_sort2", b_sort2::<NativeSrc>));
    v.push(("c35_page3", b_page3::<NativeSrc>));
    v.push(("c35_pair", b_pair::<NativeSrc>));
    v.push(("c35_triple", b_triple::<NativeSrc>));
    v.push(("c35_num_triple", b_num_triple::<NativeSrc>));
}
