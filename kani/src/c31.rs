//! C31 — Value/Tuple comparison is a total order consistent with Eq and Hash.
use crate::{check, cover, harness, NativeBody, NativeSrc, Src};
use inputlayer::{Tuple, Value};
use std::cmp::Ordering;
use std::hash::{Hash, Hasher};

/// Arbitrary scalar Value: all six payload-carrying/unit scalar kinds with
/// full-width payloads (every f64 bit pattern included).
pub fn any_scalar<S: Src>(s: &mut S) -> Value {
    let k = s.u8();
    s.assume(k < 6);
    match k {
        0 => Value::Int32(s.i32()),
        1 => Value::Int64(s.i64()),
        2 => Value::Float64(s.f64()),
        3 => Value::Bool(s.bool()),
        4 => Value::Null,
        _ => Value::Timestamp(s.i64()),
    }
}

/// Arbitrary Float64 value only (focus harnesses).
pub fn any_float<S: Src>(s: &mut S) -> Value {
    Value::Float64(s.f64())
}

/// Recording hasher: logs every byte written (so equality of logs is equality
/// of what `Hash for Value` feeds to *any* hasher). Bytes are packed into six
/// u64 words so that comparing two logs needs no loop.
pub struct Rec {
    pub w: [u64; 6],
    pub n: usize,
    pub overflow: bool,
}
impl Rec {
    pub fn new() -> Self {
        Rec {
            w: [0; 6],
            n: 0,
            overflow: false,
        }
    }
}
impl Hasher for Rec {
    fn finish(&self) -> u64 {
        0
    }
    fn write(&mut self, bytes: &[u8]) {
        for &b in bytes {
            if self.n < 48 {
                self.w[self.n / 8] |= (b as u64) << (8 * (self.n % 8));
                self.n += 1;
            } else {
                self.overflow = true;
            }
        }
    }
}
fn rec_eq(a: &Rec, b: &Rec) -> bool {
    a.n == b.n
        && !a.overflow
        && !b.overflow
        && a.w[0] == b.w[0]
        && a.w[1] == b.w[1]
        && a.w[2] == b.w[2]
        && a.w[3] == b.w[3]
        && a.w[4] == b.w[4]
        && a.w[5] == b.w[5]
}

pub fn laws2(a: &Value, b: &Value) -> Result<(), String> {
    let c = a.cmp(b);
    let e = a == b;
    check!((c == Ordering::Equal) == e, "cmp==Equal <=> eq");
    check!(c == b.cmp(a).reverse(), "antisymmetry");
    check!(a.partial_cmp(b) == Some(c), "partial_cmp agrees with cmp");
    if e {
        let mut ha = Rec::new();
        let mut hb = Rec::new();
        a.hash(&mut ha);
        b.hash(&mut hb);
        check!(rec_eq(&ha, &hb), "eq => equal hash input");
    }
    Ok(())
}

pub fn laws3(a: &Value, b: &Value, c: &Value) -> Result<(), String> {
    let ab = a.cmp(b);
    let bc = b.cmp(c);
    let ac = a.cmp(c);
    if ab != Ordering::Greater && bc != Ordering::Greater {
        check!(ac != Ordering::Greater, "transitivity of <=");
    }
    if ab == Ordering::Equal && bc == Ordering::Equal {
        check!(ac == Ordering::Equal, "transitivity of Equal");
    }
    if ab == Ordering::Less && bc == Ordering::Less {
        check!(ac == Ordering::Less, "transitivity of <");
    }
    Ok(())
}

/// pairs of arbitrary scalar values (all kinds x all kinds)
pub fn b_scalar_pair<S: Src>(s: &mut S) -> Result<(), String> {
    let a = any_scalar(s);
    let b = any_scalar(s);
    cover!(matches!((&a, &b), (Value::Float64(_), Value::Float64(_))), "both float");
    cover!(matches!((&a, &b), (Value::Int64(_), Value::Float64(_))), "int64 vs float");
    cover!(a == b, "equal pair");
    laws2(&a, &b)
}
harness!(c31_scalar_pair, b_scalar_pair, 10);

/// triples of arbitrary scalar values
pub fn b_scalar_triple<S: Src>(s: &mut S) -> Result<(), String> {
    let a = any_scalar(s);
    let b = any_scalar(s);
    let c = any_scalar(s);
    cover!(
        a.cmp(&b) == Ordering::Less && b.cmp(&c) == Ordering::Less,
        "strict chain"
    );
    laws3(&a, &b, &c)
}
harness!(c31_scalar_triple, b_scalar_triple, 4);

/// pairs / triples of floats only (every bit pattern)
pub fn b_float_pair<S: Src>(s: &mut S) -> Result<(), String> {
    let a = any_float(s);
    let b = any_float(s);
    cover!(a == b, "equal floats");
    laws2(&a, &b)
}
harness!(c31_float_pair, b_float_pair, 10);

pub fn b_float_triple<S: Src>(s: &mut S) -> Result<(), String> {
    let a = any_float(s);
    let b = any_float(s);
    let c = any_float(s);
    cover!(a.cmp(&b) == Ordering::Less, "a<b");
    laws3(&a, &b, &c)
}
harness!(c31_float_triple, b_float_triple, 3);

/// strings of length <= 2 over ASCII
fn any_str<S: Src>(s: &mut S) -> Value {
    let n = s.u8();
    s.assume(n <= 2);
    let b0 = s.u8();
    let b1 = s.u8();
    s.assume(b0 < 128 && b1 < 128);
    let buf = [b0, b1];
    let st = std::str::from_utf8(&buf[..n as usize]).unwrap_or("");
    Value::string(st)
}
pub fn b_string_pair<S: Src>(s: &mut S) -> Result<(), String> {
    let a = any_str(s);
    let b = any_str(s);
    cover!(a == b, "equal strings");
    cover!(a.cmp(&b) == Ordering::Less, "a<b");
    laws2(&a, &b)
}
harness!(c31_string_pair, b_string_pair, 12);

/// string vs scalar (cross-kind)
pub fn b_string_scalar<S: Src>(s: &mut S) -> Result<(), String> {
    let a = any_str(s);
    let b = any_scalar(s);
    let c = any_scalar(s);
    laws2(&a, &b)?;
    laws3(&a, &b, &c)?;
    laws3(&b, &a, &c)?;
    laws3(&b, &c, &a)
}
harness!(c31_string_scalar, b_string_scalar, 4);

/// A value of ANY of the nine kinds. The scalar kinds carry full-width payloads; the heap kinds carry one of two
/// fixed tiny payloads - the cross-kind part of `Ord` depends on the kinds only, so this is what the cross-kind
/// laws need (same-kind laws of the heap kinds are the string/vector harnesses).
pub fn any_kind<S: Src>(s: &mut S) -> Value {
    let k = s.u8();
    s.assume(k < 9);
    let alt = s.bool();
    match k {
        0 => Value::Int32(s.i32()),
        1 => Value::Int64(s.i64()),
        2 => Value::Float64(s.f64()),
        3 => Value::Bool(alt),
        4 => Value::Null,
        5 => Value::Timestamp(s.i64()),
        6 => Value::string(if alt { "a" } else { "b" }),
        7 => Value::vector(if alt { vec![0.5f32] } else { Vec::new() }),
        _ => Value::vector_int8(if alt { vec![1i8] } else { Vec::new() }),
    }
}
pub fn b_kind_pair<S: Src>(s: &mut S) -> Result<(), String> {
    let a = any_kind(s);
    let b = any_kind(s);
    cover!(matches!((&a, &b), (Value::String(_), Value::Timestamp(_))), "string vs timestamp");
    cover!(matches!((&a, &b), (Value::Vector(_), Value::Null)), "vector vs null");
    cover!(a == b, "equal pair");
    laws2(&a, &b)
}
harness!(c31_kind_pair, b_kind_pair, 12);
pub fn b_kind_triple<S: Src>(s: &mut S) -> Result<(), String> {
    let a = any_kind(s);
    let b = any_kind(s);
    let c = any_kind(s);
    cover!(
        matches!((&a, &b, &c), (Value::String(_), Value::Int64(_), Value::VectorInt8(_))),
        "three kinds"
    );
    laws3(&a, &b, &c)
}
harness!(c31_kind_triple, b_kind_triple, 6);

/// float vectors of length <= 2 with arbitrary f32 bit patterns
fn any_vec<S: Src>(s: &mut S) -> Value {
    let n = s.u8();
    s.assume(n <= 2);
    let x0 = s.f32();
    let x1 = s.f32();
    let mut v = Vec::with_capacity(2);
    if n >= 1 {
        v.push(x0);
    }
    if n >= 2 {
        v.push(x1);
    }
    Value::vector(v)
}
pub fn b_vector_pair<S: Src>(s: &mut S) -> Result<(), String> {
    let a = any_vec(s);
    let b = any_vec(s);
    cover!(a == b, "equal vectors");
    laws2(&a, &b)
}
harness!(c31_vector_pair, b_vector_pair, 10);

fn any_vec8<S: Src>(s: &mut S) -> Value {
    let n = s.u8();
    s.assume(n <= 2);
    let x0 = s.i8();
    let x1 = s.i8();
    let mut v = Vec::with_capacity(2);
    if n >= 1 {
        v.push(x0);
    }
    if n >= 2 {
        v.push(x1);
    }
    Value::vector_int8(v)
}
pub fn b_vector8_pair<S: Src>(s: &mut S) -> Result<(), String> {
    let a = any_vec8(s);
    let b = any_vec8(s);
    cover!(a == b, "equal vectors");
    laws2(&a, &b)
}
harness!(c31_vector8_pair, b_vector8_pair, 10);

/// tuples over scalar values inherit the laws; arities are concrete per harness
/// (a symbolic Vec length does not finish under CBMC)
fn tuple_n<S: Src>(s: &mut S, n: usize) -> Tuple {
    let mut v = Vec::with_capacity(n);
    let mut i = 0;
    while i < n {
        v.push(any_scalar(s));
        i += 1;
    }
    Tuple::new(v)
}
fn tuple_laws(a: Tuple, b: Tuple) -> Result<(), String> {
    let c = a.cmp(&b);
    let e = a == b;
    cover!(e, "equal tuples");
    cover!(c == Ordering::Less, "a<b");
    let mut r = Ok(());
    if (c == Ordering::Equal) != e {
        r = Err(String::from("tuple cmp==Equal <=> eq"));
    } else if c != b.cmp(&a).reverse() {
        r = Err(String::from("tuple antisymmetry"));
    } else if e {
        let mut ha = Rec::new();
        let mut hb = Rec::new();
        a.hash(&mut ha);
        b.hash(&mut hb);
        if !rec_eq(&ha, &hb) {
            r = Err(String::from("tuple eq => equal hash input"));
        }
    }
    std::mem::forget(a);
    std::mem::forget(b);
    r
}
pub fn b_tuple1_pair<S: Src>(s: &mut S) -> Result<(), String> {
    let a = tuple_n(s, 1);
    let b = tuple_n(s, 1);
    tuple_laws(a, b)
}
harness!(c31_tuple1_pair, b_tuple1_pair, 10);
pub fn b_tuple2_pair<S: Src>(s: &mut S) -> Result<(), String> {
    let a = tuple_n(s, 2);
    let b = tuple_n(s, 2);
    tuple_laws(a, b)
}
harness!(c31_tuple2_pair, b_tuple2_pair, 10);
pub fn b_tuple12_pair<S: Src>(s: &mut S) -> Result<(), String> {
    let a = tuple_n(s, 1);
    let b = tuple_n(s, 2);
    let c = a.cmp(&b);
    let r = if c == Ordering::Equal || a == b || c != b.cmp(&a).reverse() {
        Err(String::from("tuples of different arity must differ consistently"))
    } else {
        Ok(())
    };
    std::mem::forget(a);
    std::mem::forget(b);
    r
}
harness!(c31_tuple12_pair, b_tuple12_pair, 10);

/// trivial warm-up harness (used by setup to compile all dependencies once)
pub fn b_warmup<S: Src>(s: &mut S) -> Result<(), String> {
    let a = Value::Int32(s.i32());
    let b = Value::Int32(s.i32());
    check!(a.cmp(&b) == b.cmp(&a).reverse(), "antisymmetry");
    Ok(())
}
harness!(c31_warmup, b_warmup, 3);

pub fn register(v: &mut Vec<(&'static str, NativeBody)>) {
    v.push(("c31_scalar_pair", b_scalar_pair::<NativeSrc>));
    v.push(("c31_scalar_triple", b_scalar_triple::<NativeSrc>));
    v.push(("c31_float_pair", b_float_pair::<NativeSrc>));
    v.push(("c31_float_triple", b_float_triple::<NativeSrc>));
    v.push(("c31_string_pair", b_string_pair::<NativeSrc>));
    v.push(("c31_string_scalar", b_string_scalar::<NativeSrc>));
    v.push(("c31_kind_pair", b_kind_pair::<NativeSrc>));
    v.push(("c31_kind_triple", b_kind_triple::<NativeSrc>));
    v.push(("c31_vector_pair", b_vector_pair::<NativeSrc>));
    v.push(("c31_vector8_pair", b_vector8_pair::<NativeSrc>));
    v.push(("c31_tuple1_pair", b_tuple1_pair::<NativeSrc>));
    v.push(("c31_tuple2_pair", b_tuple2_pair::<NativeSrc>));
    v.push(("c31_tuple12_pair", b_tuple12_pair::<NativeSrc>));
    v.push(("c31_warmup", b_warmup::<NativeSrc>));
}
