//! Input source abstraction: symbolic under Kani, concrete for native replay.

pub trait Src {
    fn u8(&mut self) -> u8;
    fn u16(&mut self) -> u16;
    fn u32(&mut self) -> u32;
    fn u64(&mut self) -> u64;
    fn i8(&mut self) -> i8 {
        self.u8() as i8
    }
    fn i32(&mut self) -> i32 {
        self.u32() as i32
    }
    fn i64(&mut self) -> i64 {
        self.u64() as i64
    }
    fn usize(&mut self) -> usize {
        self.u64() as usize
    }
    fn bool(&mut self) -> bool {
        self.u8() & 1 == 1
    }
    fn f64(&mut self) -> f64 {
        f64::from_bits(self.u64())
    }
    fn f32(&mut self) -> f32 {
        f32::from_bits(self.u32())
    }
    /// Constrain the inputs. Under Kani: `kani::assume`. Natively: the values
    /// come from a solver model, so a false assumption means the replay input
    /// is not a counterexample of this harness.
    fn assume(&mut self, c: bool);
    /// True when an assumption was violated during native replay.
    fn assumption_violated(&self) -> bool {
        false
    }
}

#[cfg(kani)]
pub struct KaniSrc;

#[cfg(kani)]
impl Src for KaniSrc {
    fn u8(&mut self) -> u8 {
        kani::any()
    }
    fn u16(&mut self) -> u16 {
        kani::any()
    }
    fn u32(&mut self) -> u32 {
        kani::any()
    }
    fn u64(&mut self) -> u64 {
        kani::any()
    }
    fn assume(&mut self, c: bool) {
        kani::assume(c)
    }
}

/// Concrete values in the order of the `any()` calls (little endian byte
/// vectors exactly as Kani's concrete playback prints them).
pub struct NativeSrc {
    vals: Vec<Vec<u8>>,
    pos: usize,
    violated: bool,
    pub exhausted: bool,
}

impl NativeSrc {
    pub fn new(vals: Vec<Vec<u8>>) -> Self {
        NativeSrc {
            vals,
            pos: 0,
            violated: false,
            exhausted: false,
        }
    }
    fn next(&mut self, n: usize) -> u64 {
        let v = if self.pos < self.vals.len() {
            self.vals[self.pos].clone()
        } else {
            self.exhausted = true;
            vec![0; n]
        };
        self.pos += 1;
        let mut x = 0u64;
        for (i, b) in v.iter().take(8).enumerate() {
            x |= (*b as u64) << (8 * i);
        }
        x
    }
}

impl Src for NativeSrc {
    fn u8(&mut self) -> u8 {
        self.next(1) as u8
    }
    fn u16(&mut self) -> u16 {
        self.next(2) as u16
    }
    fn u32(&mut self) -> u32 {
        self.next(4) as u32
    }
    fn u64(&mut self) -> u64 {
        self.next(8)
    }
    fn assume(&mut self, c: bool) {
        if !c {
            self.violated = true;
        }
    }
    fn assumption_violated(&self) -> bool {
        self.violated
    }
}

/// `check!(cond, "msg")`: return Err from the body when a law is violated.
#[macro_export]
macro_rules! check {
    ($c:expr, $m:expr) => {
        if !($c) {
            return Err(String::from($m));
        }
    };
}

/// `cover!(cond, "msg")`: vacuity witness (Kani only; no-op natively).
#[macro_export]
macro_rules! cover {
    ($c:expr, $m:literal) => {
        #[cfg(kani)]
        kani::cover!($c, $m);
        #[cfg(not(kani))]
        let _ = &$c;
    };
}

/// Declare a Kani proof harness `$h` around body `$b` with unwind `$u`.
#[macro_export]
macro_rules! harness {
    ($h:ident, $b:path, $u:expr) => {
        #[cfg(kani)]
        #[kani::proof]
        #[kani::unwind($u)]
        fn $h() {
            let mut s = $crate::KaniSrc;
            let r = $b(&mut s);
            assert!(r.is_ok(), "law violated");
        }
    };
}
