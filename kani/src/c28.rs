//! C28 — Role permissions form a lattice; viewers are read-only; admin-only commands.
use crate::{check, cover, harness, NativeBody, NativeSrc, Src};
use inputlayer::ast::{Atom, Rule};
use inputlayer::auth::{authorize_kg_operation, authorize_statement, KgRole, Role};
use inputlayer::statement::{
    DeleteOp, DeletePattern, IndexCreateOptions, InsertOp, LoadMode, MetaCommand, QueryGoal,
    SchemaDecl, Statement, TypeDecl, TypeExpr, UpdateOp,
};

pub const N_STMT: u8 = 10;
pub const N_META: u8 = 50;

fn name(b: bool) -> String {
    // payload-dependent rules (e.g. special-casing the internal graph) would be seen
    String::from(if b { "_internal" } else { "x" })
}

fn rule(b: bool) -> Rule {
    Rule::new(Atom::new(name(b), Vec::new()), Vec::new())
}

/// Real `MetaCommand` for selector k in 0..50 (every variant).
pub fn meta(k: u8, b: bool) -> MetaCommand {
    match k {
        0 => MetaCommand::KgShow,
        1 => MetaCommand::KgList,
        2 => MetaCommand::KgCreate(name(b)),
        3 => MetaCommand::KgUse(name(b)),
        4 => MetaCommand::KgDrop(name(b)),
        5 => MetaCommand::RelList,
        6 => MetaCommand::RelDescribe(name(b)),
        7 => MetaCommand::RelDrop(name(b)),
        8 => MetaCommand::RuleList,
        9 => MetaCommand::RuleQuery(name(b)),
        10 => MetaCommand::RuleShowDef(name(b)),
        11 => MetaCommand::RuleDrop(name(b)),
        12 => MetaCommand::RuleDropPrefix(name(b)),
        13 => MetaCommand::RuleEdit { name: name(b), index: 0, rule_text: String::new() },
        14 => MetaCommand::RuleClear(name(b)),
        15 => MetaCommand::RuleRemove { name: name(b), index: 0 },
        16 => MetaCommand::SessionList,
        17 => MetaCommand::SessionClear,
        18 => MetaCommand::SessionDrop(0),
        19 => MetaCommand::SessionDropName(name(b)),
        20 => MetaCommand::IndexList,
        21 => MetaCommand::IndexCreate(IndexCreateOptions {
            name: name(b),
            relation: String::new(),
            column: String::new(),
            index_type: String::new(),
            metric: None,
            m: None,
            ef_construction: None,
            ef_search: None,
        }),
        22 => MetaCommand::IndexDrop(name(b)),
        23 => MetaCommand::IndexStats(name(b)),
        24 => MetaCommand::IndexRebuild(name(b)),
        25 => MetaCommand::ClearPrefix(name(b)),
        26 => MetaCommand::Compact,
        27 => MetaCommand::Status,
        28 => MetaCommand::Debug(name(b)),
        29 => MetaCommand::Why(name(b)),
        30 => MetaCommand::WhyFull(name(b)),
        31 => MetaCommand::WhyNot(name(b)),
        32 => MetaCommand::AgentMessage(name(b)),
        33 => MetaCommand::AgentStart(name(b)),
        34 => MetaCommand::AgentSetup(name(b)),
        35 => MetaCommand::AgentExamples,
        36 => MetaCommand::Help,
        37 => MetaCommand::Quit,
        38 => MetaCommand::Load { path: name(b), mode: if b { LoadMode::Replace } else { LoadMode::Default } },
        39 => MetaCommand::UserList,
        40 => MetaCommand::UserCreate { username: name(b), password: String::new(), role: String::new() },
        41 => MetaCommand::UserDrop(name(b)),
        42 => MetaCommand::UserPassword { username: name(b), password: String::new() },
        43 => MetaCommand::UserRole { username: name(b), role: String::new() },
        44 => MetaCommand::ApiKeyCreate(name(b)),
        45 => MetaCommand::ApiKeyList,
        46 => MetaCommand::ApiKeyRevoke(name(b)),
        47 => MetaCommand::KgAclList(if b { Some(name(b)) } else { None }),
        48 => MetaCommand::KgAclGrant { kg_name: name(b), username: String::new(), role: String::new() },
        _ => MetaCommand::KgAclRevoke { kg_name: name(b), username: String::new() },
    }
}

/// Real non-meta `Statement` for selector k in 0..10 (every variant).
pub fn stmt(k: u8, b: bool) -> Statement {
    match k {
        0 => Statement::Insert(InsertOp { relation: name(b), tuples: Vec::new() }),
        1 => Statement::Delete(DeleteOp { relation: name(b), pattern: DeletePattern::SingleTuple(Vec::new()) }),
        2 => Statement::Update(UpdateOp { deletes: Vec::new(), inserts: Vec::new(), body: Vec::new() }),
        3 => Statement::TypeDecl(TypeDecl { name: name(b), type_expr: TypeExpr::TypeRef(String::new()) }),
        4 => Statement::SessionRule(rule(b)),
        5 => Statement::Fact(rule(b)),
        6 => Statement::Query(QueryGoal {
            goal: Atom::new(name(b), Vec::new()),
            body: Vec::new(),
            order_by: Vec::new(),
            limit: None,
            offset: None,
        }),
        7 => Statement::SchemaDecl(SchemaDecl { name: name(b), columns: Vec::new(), persistent: b }),
        8 => Statement::PersistentRule(rule(b)),
        _ => Statement::DeleteRelationOrRule(name(b)),
    }
}

/// Oracle tables, written from the documentation comments of `Statement` / `MetaCommand`.
/// The matches are exhaustive without wildcard: a new variant fails to compile here.
#[derive(PartialEq, Clone, Copy)]
pub enum Class {
    /// definitely changes persistent state
    Mutating,
    /// manages users, API keys or compaction
    AdminOnly,
    /// read-only, ephemeral, or not classified (nothing asserted beyond the lattice)
    Other,
}

pub fn classify_meta(c: &MetaCommand) -> Class {
    use MetaCommand::*;
    match c {
        KgShow | KgList | KgUse(_) => Class::Other,
        KgCreate(_) | KgDrop(_) => Class::Mutating,
        RelList | RelDescribe(_) => Class::Other,
        RelDrop(_) => Class::Mutating,
        RuleList | RuleQuery(_) | RuleShowDef(_) => Class::Other,
        RuleDrop(_) | RuleDropPrefix(_) | RuleEdit { .. } | RuleClear(_) | RuleRemove { .. } => Class::Mutating,
        SessionList | SessionClear | SessionDrop(_) | SessionDropName(_) => Class::Other,
        IndexList | IndexStats(_) => Class::Other,
        IndexCreate(_) | IndexDrop(_) | IndexRebuild(_) => Class::Mutating,
        ClearPrefix(_) => Class::Mutating,
        Compact => Class::AdminOnly,
        Status | Debug(_) | Why(_) | WhyFull(_) | WhyNot(_) => Class::Other,
        AgentMessage(_) | AgentStart(_) | AgentSetup(_) | AgentExamples => Class::Other,
        Help | Quit => Class::Other,
        Load { .. } => Class::Mutating,
        UserList | UserCreate { .. } | UserDrop(_) | UserPassword { .. } | UserRole { .. } => Class::AdminOnly,
        ApiKeyCreate(_) | ApiKeyList | ApiKeyRevoke(_) => Class::AdminOnly,
        KgAclList(_) => Class::Other,
        KgAclGrant { .. } | KgAclRevoke { .. } => Class::Mutating,
    }
}

pub fn classify(s: &Statement) -> Class {
    match s {
        Statement::Meta(c) => classify_meta(c),
        Statement::Insert(_) | Statement::Delete(_) | Statement::Update(_) => Class::Mutating,
        Statement::PersistentRule(_) | Statement::DeleteRelationOrRule(_) => Class::Mutating,
        Statement::SchemaDecl(d) => {
            if d.persistent {
                Class::Mutating
            } else {
                Class::Other
            }
        }
        Statement::TypeDecl(_) | Statement::Fact(_) => Class::Other,
        Statement::SessionRule(_) | Statement::Query(_) => Class::Other,
    }
}

fn laws(s: &Statement) -> Result<(), String> {
    let kv = authorize_kg_operation(&KgRole::Viewer, s).is_ok();
    let ke = authorize_kg_operation(&KgRole::Editor, s).is_ok();
    let ko = authorize_kg_operation(&KgRole::Owner, s).is_ok();
    let gv = authorize_statement(&Role::Viewer, s).is_ok();
    let ge = authorize_statement(&Role::Editor, s).is_ok();
    let ga = authorize_statement(&Role::Admin, s).is_ok();
    check!(!kv || ke, "kg lattice: viewer-ok => editor-ok");
    check!(!ke || ko, "kg lattice: editor-ok => owner-ok");
    check!(!gv || ge, "global lattice: viewer-ok => editor-ok");
    check!(!ge || ga, "global lattice: editor-ok => admin-ok");
    let c = classify(s);
    if c == Class::Mutating || c == Class::AdminOnly {
        check!(!kv, "kg viewer permits a statement that changes persistent state");
    }
    if c == Class::AdminOnly {
        check!(!gv && !ge, "non-admin global role permits user/api-key/compaction management");
        check!(!kv && !ke, "kg editor/viewer permits user/api-key/compaction management");
    }
    // a viewer on both layers (the weakest identity) can never mutate
    if c == Class::Mutating {
        check!(!(gv && kv), "viewer/viewer identity may change persistent state");
    }
    Ok(())
}

/// all 50 meta-command variants x payload bit, selector symbolic
pub fn b_meta<S: Src>(s: &mut S) -> Result<(), String> {
    let k = s.u8();
    s.assume(k < N_META);
    let b = s.bool();
    let st = Statement::Meta(meta(k, b));
    cover!(k == 26, "compact reached");
    cover!(k == 49, "last variant reached");
    let r = laws(&st);
    std::mem::forget(st);
    r
}
harness!(c28_meta, b_meta, 12);

/// all 10 non-meta statement variants x payload bit
pub fn b_stmt<S: Src>(s: &mut S) -> Result<(), String> {
    let k = s.u8();
    s.assume(k < N_STMT);
    let b = s.bool();
    let st = stmt(k, b);
    cover!(k == 9, "last variant reached");
    let r = laws(&st);
    std::mem::forget(st);
    r
}
harness!(c28_stmt, b_stmt, 12);

pub fn register(v: &mut Vec<(&'static str, NativeBody)>) {
    v.push(("c28_meta", b_meta::<NativeSrc>));
    v.push(("c28_stmt", b_stmt::<NativeSrc>));
}
