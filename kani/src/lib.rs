//! Kani harnesses over real inputlayer functions (engine K).
//!
//! Every harness body is generic over an input source `Src`, so the very same
//! body runs (a) under Kani with `kani::any()` inputs and (b) natively with the
//! concrete values of a counterexample (`ilk-replay`), which is how a solver
//! counterexample is confirmed against the real build before it is reported.

pub mod src;
pub use src::*;

pub mod c03;
pub mod c05;
pub mod c26;
pub mod c28;
pub mod c31;
pub mod c35;
pub mod c36;

/// Dispatch a harness body by name on a native source. Returns Err(reason) when
/// a check inside the body fails (i.e. the counterexample reproduces).
pub fn run_native(name: &str, s: &mut NativeSrc) -> Option<Result<(), String>> {
    for (n, f) in registry() {
        if n == name {
            return Some(f(s));
        }
    }
    None
}

pub type NativeBody = fn(&mut NativeSrc) -> Result<(), String>;

pub fn registry() -> Vec<(&'static str, NativeBody)> {
    let mut v: Vec<(&'static str, NativeBody)> = Vec::new();
    c03::register(&mut v);
    c05::register(&mut v);
    c26::register(&mut v);
    c28::register(&mut v);
    c31::register(&mut v);
    c35::register(&mut v);
    c36::register(&mut v);
    v
}
