//! C36 — a bloom filter never loses an inserted key (real BloomFilter + real SipHash DefaultHasher).
use crate::{cover, harness, NativeBody, NativeSrc, Src};
use inputlayer::bloom_filter::BloomFilter;

#[derive(Hash)]
pub struct Key(pub u64);

fn laws<S: Src>(s: &mut S, bits: usize, hashes: usize, two: bool) -> Result<(), String> {
    let mut f = BloomFilter::with_params(bits, hashes);
    let k1 = Key(s.u64());
    let k2 = Key(s.u64());
    f.insert(&k1);
    if two {
        f.insert(&k2);
    }
    let mut r = Ok(());
    if !f.might_contain(&k1) {
        r = Err(String::from("inserted key reported absent"));
    } else if two && !f.might_contain(&k2) {
        r = Err(String::from("second inserted key reported absent"));
    } else if f.len() != if two { 2 } else { 1 } {
        r = Err(String::from("len does not count inserts"));
    } else {
        f.clear();
        if !f.is_empty() {
            r = Err(String::from("clear leaves elements"));
        }
        f.insert(&k2);
        if !f.might_contain(&k2) {
            r = Err(String::from("key inserted after clear reported absent"));
        }
    }
    cover!(r.is_ok(), "laws reached");
    std::mem::forget(f);
    r
}

macro_rules! bloom {
    ($h:ident, $b:ident, $bits:expr, $hashes:expr, $two:expr, $u:expr) => {
        pub fn $b<S: Src>(s: &mut S) -> Result<(), String> {
            laws(s, $bits, $hashes, $two)
        }
        harness!($h, $b, $u);
    };
}
// (num_bits, num_hashes): degenerate 0/0 (clamped to 64/1), one word, just over one word, many hashes
bloom!(c36_bloom_0_0, b_bloom_0_0, 0, 0, false, 4);
bloom!(c36_bloom_64_2, b_bloom_64_2, 64, 2, true, 4);
bloom!(c36_bloom_65_1, b_bloom_65_1, 65, 1, true, 4);
bloom!(c36_bloom_128_3, b_bloom_128_3, 128, 3, false, 5);
bloom!(c36_bloom_1000_2, b_bloom_1000_2, 1000, 2, false, 18);
bloom!(c36_bloom_64_7, b_bloom_64_7, 64, 7, false, 9);

pub fn register(v: &mut Vec<(&'static str, NativeBody)>) {
    v.push(("c36_bloom_0_0", b_bloom_0_0::<NativeSrc>));
    v.push(("c36_bloom_64_2", b_bloom_64_2::<NativeSrc>));
    v.push(("c36_bloom_65_1", b_bloom_65_1::<NativeSrc>));
    v.push(("c36_bloom_128_3", b_bloom_128_3::<NativeSrc>));
    v.push(("c36_bloom_1000_2", b_bloom_1000_2::<NativeSrc>));
    v.push(("c36_bloom_64_7", b_bloom_64_7::<NativeSrc>));
}
