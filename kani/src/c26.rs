//! C26 — vector builtins obey their laws (integer/bit kernels and small float kernels).
use crate::{check, cover, harness, NativeBody, NativeSrc, Src};
use inputlayer::vector_ops::{
    dot_product, dot_product_int8, euclidean_distance_int8, euclidean_distance_squared,
    hamming_distance, lsh_probes, manhattan_distance, manhattan_distance_int8,
};

pub fn b_hamming<S: Src>(s: &mut S) -> Result<(), String> {
    let a = s.i64();
    let b = s.i64();
    let d = hamming_distance(a, b);
    cover!(d == 64, "all bits differ");
    cover!(d == 0, "equal");
    check!(d == hamming_distance(b, a), "hamming symmetric");
    check!(d >= 0 && d <= 64, "hamming in [0,64]");
    check!((d == 0) == (a == b), "hamming zero iff equal");
    Ok(())
}
harness!(c26_hamming, b_hamming, 2);

fn binom(n: usize, k: usize) -> usize {
    match k {
        0 => 1,
        1 => n,
        2 => n * n.saturating_sub(1) / 2,
        _ => n * n.saturating_sub(1) * n.saturating_sub(2) / 6,
    }
}

/// probe sequence laws for a symbolic bucket and concrete (hyperplanes, probes)
fn probes_laws<S: Src>(s: &mut S, h: usize, p: usize) -> Result<(), String> {
    let bucket = s.i64();
    let v = lsh_probes(bucket, h, p);
    let b = h.min(62);
    let all = 1 + binom(b, 1) + binom(b, 2) + binom(b, 3);
    let want = p.min(all);
    let mut r = Ok(());
    if v.len() != want {
        r = Err(String::from("probe count"));
    } else if p > 0 && v[0] != bucket {
        r = Err(String::from("probes start at the bucket"));
    } else {
        let mut i = 0;
        while i < v.len() {
            if i > 0 && hamming_distance(bucket, v[i]) < hamming_distance(bucket, v[i - 1]) {
                r = Err(String::from("probes non-decreasing in Hamming distance"));
            }
            let mut j = 0;
            while j < i {
                if v[j] == v[i] {
                    r = Err(String::from("probes distinct"));
                }
                j += 1;
            }
            i += 1;
        }
    }
    cover!(v.len() == want, "expected length reached");
    std::mem::forget(v);
    r
}

macro_rules! probes {
    ($h:ident, $b:ident, $hp:expr, $p:expr, $u:expr) => {
        pub fn $b<S: Src>(s: &mut S) -> Result<(), String> {
            probes_laws(s, $hp, $p)
        }
        harness!($h, $b, $u);
    };
}
probes!(c26_probes_h0_p3, b_probes_h0_p3, 0, 3, 6);
probes!(c26_probes_h1_p4, b_probes_h1_p4, 1, 4, 6);
probes!(c26_probes_h2_p0, b_probes_h2_p0, 2, 0, 6);
probes!(c26_probes_h2_p8, b_probes_h2_p8, 2, 8, 10);
probes!(c26_probes_h3_p8, b_probes_h3_p8, 3, 8, 10);
probes!(c26_probes_h4_p16, b_probes_h4_p16, 4, 16, 18);
probes!(c26_probes_h62_p3, b_probes_h62_p3, 62, 3, 64);
probes!(c26_probes_h64_p3, b_probes_h64_p3, 64, 3, 64);

fn same(a: f64, b: f64) -> bool {
    a.to_bits() == b.to_bits() || (a.is_nan() && b.is_nan())
}

/// manhattan (no multiplication): symmetric, non-negative, zero on identical finite inputs
fn manhattan_laws(a: &[f32], b: &[f32]) -> Result<(), String> {
    let m = manhattan_distance(a, b);
    check!(same(m, manhattan_distance(b, a)), "manhattan symmetric");
    check!(m >= 0.0, "manhattan non-negative");
    check!(manhattan_distance(a, a) == 0.0, "manhattan zero on identical");
    Ok(())
}

pub fn b_float_manhattan1<S: Src>(s: &mut S) -> Result<(), String> {
    let a = [s.f32()];
    let b = [s.f32()];
    s.assume(a[0].is_finite() && b[0].is_finite());
    cover!(manhattan_distance(&a, &b) > 0.0, "positive distance");
    manhattan_laws(&a, &b)
}
harness!(c26_float_manhattan1, b_float_manhattan1, 3);

pub fn b_float_manhattan2<S: Src>(s: &mut S) -> Result<(), String> {
    let a = [s.f32(), s.f32()];
    let b = [s.f32(), s.f32()];
    s.assume(a[0].is_finite() && a[1].is_finite() && b[0].is_finite() && b[1].is_finite());
    cover!(manhattan_distance(&a, &b) > 0.0, "positive distance");
    manhattan_laws(&a, &b)
}
harness!(c26_float_manhattan2, b_float_manhattan2, 4);

/// squared euclidean, dimension 1: non-negative and zero on identical finite inputs
/// (symmetry needs multiplier equivalence, which CBMC does not finish: outside the claim)
pub fn b_float_euclid1<S: Src>(s: &mut S) -> Result<(), String> {
    let a = [s.f32()];
    let b = [s.f32()];
    s.assume(a[0].is_finite() && b[0].is_finite());
    let e = euclidean_distance_squared(&a, &b);
    cover!(e > 0.0, "positive distance");
    check!(e >= 0.0, "euclidean^2 non-negative");
    check!(euclidean_distance_squared(&a, &a) == 0.0, "euclidean^2 zero on identical");
    Ok(())
}
harness!(c26_float_euclid1, b_float_euclid1, 3);

/// dimension mismatch conventions (documented: INFINITY / 0.0)
pub fn b_float_mismatch<S: Src>(s: &mut S) -> Result<(), String> {
    let a = [s.f32(), s.f32()];
    let b = [s.f32()];
    check!(euclidean_distance_squared(&a, &b) == f64::INFINITY, "mismatch -> INFINITY");
    check!(manhattan_distance(&b, &a) == f64::INFINITY, "mismatch -> INFINITY");
    check!(dot_product(&a, &b) == 0.0, "mismatch -> 0");
    Ok(())
}
harness!(c26_float_mismatch, b_float_mismatch, 4);

/// int8 kernels, dimension 3, every i8
pub fn b_int8_dist3<S: Src>(s: &mut S) -> Result<(), String> {
    let a = [s.i8(), s.i8(), s.i8()];
    let b = [s.i8(), s.i8(), s.i8()];
    let m = manhattan_distance_int8(&a, &b);
    let d = dot_product_int8(&a, &b);
    cover!(m > 700.0, "large distance");
    check!(m == manhattan_distance_int8(&b, &a), "manhattan_int8 symmetric");
    check!(d == dot_product_int8(&b, &a), "dot_int8 symmetric");
    check!(m >= 0.0, "manhattan_int8 non-negative");
    check!(manhattan_distance_int8(&a, &a) == 0.0, "manhattan_int8 zero on identical");
    check!((m == 0.0) == (a == b), "manhattan_int8 zero iff equal");
    Ok(())
}
harness!(c26_int8_dist3, b_int8_dist3, 5);

/// euclidean_int8 (uses sqrt): dimension 1
pub fn b_int8_euclid1<S: Src>(s: &mut S) -> Result<(), String> {
    let a = [s.i8()];
    let b = [s.i8()];
    let e = euclidean_distance_int8(&a, &b);
    check!(same(e, euclidean_distance_int8(&b, &a)), "euclidean_int8 symmetric");
    check!(e >= 0.0, "euclidean_int8 non-negative");
    check!(euclidean_distance_int8(&a, &a) == 0.0, "euclidean_int8 zero on identical");
    Ok(())
}
harness!(c26_int8_euclid1, b_int8_euclid1, 3);

pub fn register(v: &mut Vec<(&'static str, NativeBody)>) {
    v.push(("c26_hamming", b_hamming::<NativeSrc>));
    v.push(("c26_probes_h0_p3", b_probes_h0_p3::<NativeSrc>));
    v.push(("c26_probes_h1_p4", b_probes_h1_p4::<NativeSrc>));
    v.push(("c26_probes_h2_p0", b_probes_h2_p0::<NativeSrc>));
    v.push(("c26_probes_h2_p8", b_probes_h2_p8::<NativeSrc>));
    v.push(("c26_probes_h3_p8", b_probes_h3_p8::<NativeSrc>));
    v.push(("c26_probes_h4_p16", b_probes_h4_p16::<NativeSrc>));
    v.push(("c26_probes_h62_p3", b_probes_h62_p3::<NativeSrc>));
    v.push(("c26_probes_h64_p3", b_probes_h64_p3::<NativeSrc>));
    v.push(("c26_float_manhattan1", b_float_manhattan1::<NativeSrc>));
    v.push(("c26_float_manhattan2", b_float_manhattan2::<NativeSrc>));
    v.push(("c26_float_euclid1", b_float_euclid1::<NativeSrc>));
    v.push(("c26_float_mismatch", b_float_mismatch::<NativeSrc>));
    v.push(("c26_int8_dist3", b_int8_dist3::<NativeSrc>));
    v.push(("c26_int8_euclid1", b_int8_euclid1::<NativeSrc>));
}
