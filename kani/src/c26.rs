//! C26 — vector builtins obey their laws (integer/bit kernels and small float kernels).
use crate::{check, cover, harness, NativeBody, NativeSrc, Src};
use inputlayer::vector_ops::{
    dot_product, dot_product_int8, euclidean_distance_int8, euclidean_distance_squared,
    hamming_distance, lsh_probes, manhattan_distance, manhattan_distance_int8,
};

pub fn b_hamming<S: Src>(s: &mut S) -> Result<(), String> {
    let a = s.i64();
    let b = s.i64();
    let d = hamming_distance(a, b);
    cover!(d == 64, "all bits differ");
    cover!(d == 0, "equal");
    check!(d == hamming_distance(b, a), "hamming symmetric");
    check!(d >= 0 && d <= 64, "hamming in [0,64]");
    check!((d == 0) == (a == b), "hamming zero iff equal");
    Ok(())
}
harness!(c26_hamming, b_hamming, 2);

fn binom(n: usize, k: usize) -> usize {
    match k {
        0 => 1,
        1 => n,
        2 => n * n.saturating_sub(1) / 2,
        _ => n * n.saturating_sub(1) * n.saturating_sub(2) / 6,
    }
}

/// probe sequence laws for a symbolic bucket and concrete (hyperplanes, probes)
fn probes_laws<S: Src>(s: &mut S, h: usize, p: usize) -> Result<(), String> {
    let bucket = s.i64();
    let v = lsh_probes(bucket, h, p);
    let b = h.min(62);
    let all = 1 + binom(b, 1) + binom(b, 2) + binom(b, 3);
    let want = p.min(all);
    let mut r = Ok(());
    if v.len() != want {
        r = Err(String::from("probe count"));
    } else if p > 0 && v[0] != bucket {
        r = Err(String::from("probes start at the bucket"));
    } else {
        let mut i = 0;
        while i < v.len() {
            if i > 0 && hamming_distance(bucket, v[i]) < hamming_distance(bucket, v[i - 1]) {
                r = Err(String::from("probes non-decreasing in Hamming distance"));
            }
            let mut j = 0;
            while j < i {
                if v[j] == v[i] {
                    r = Err(String::from("probes distinct"));
                }
                j += 1;
            }
            i += 1;
        }
    }
    cover!(v.len() == want, "expected length reached");
    std::mem::forget(v);
    r
}

macro_rules! probes {
    ($h:ident, $b:ident, $hp:expr, $p:expr, $u:expr) => {
        pub fn $b<S: Src>(s: &mut S) -> Result<(), String> {
            probes_laws(s, $hp, $p)
        }
        harness!($h, $b, $u);
    };
}
probes!(c26_probes_h0_p3, b_probes_h0_p3, 0, 3, 6);
probes!(c26_probes_h1_p4, b_probes_h1_p4, 1, 4, 6);
probes!(c26_probes_h2_p0, b_probes_h2_p0, 2, 0, 6);
probes!(c26_probes_h2_p8, b_probes_h2_p8, 2, 8, 10);
probes!(c26_probes_h3_p8, b_probes_h3_p8, 3, 8, 10);
probes!(c26_probes_h4_p16, b_probes_h4_p16, 4, 16, 18);
probes!(c26_probes_h62_p3, b_probes_h62_p3, 62, 3, 64);
probes!(c26_probes_h64_p3, b_probes_h64_p3, 64, 3, 64);

fn same(a: f64, b: f64) -> bool {
    a.to_bits() == b.to_bits() || (a.is_nan() && b.is_nan())
}

/// manhattan (no multiplication): symmetric, non-negative, zero on identical finite inputs
fn manhattan_laws(a: &[f32], b: &[f32]) -> Result<(), String> {
    let m = manhattan_distance(a, b);
    check!(same(m, manhattan_distance(b, a)), "manhattan symmetric");
    check!(m >= 0.0, "manhattan non-negative");
    check!(manhattan_distance(a, a) == 0.0, "manhattan zero on identical");
    Ok(())
}

pub fn b_float_manhattan1<S: Src>(s: &mut S) -> Result<(), String> {
    let a = [s.f32()];
    let b = [s.f32()];
    s.assume(a[0].is_finite() && b[0].is_finite());
    cover!(manhattan_distance(&a, &b) > 0.0, "positive distance");
    manhattan_laws(&a, &b)
}
harness!(c26_float_manhattan1, b_float_manhattan1, 3);

pub fn b_float_manhattan2<S: Src>(s: &mut S) -> Result<(), String> {
    let a = [s.f32(), s.f32()];
    let b = [s.f32(), s.f32()];
    s.assume(a[0].is_finite() && a[1].is_finite() && b[0].is_finite() && b[1].is_finite());
    cover!(manhattan_distance(&a, &b) > 0.0, "positive distance");
    manhattan_laws(&a, &b)
}
harness!(c26_float_manhattan2, b_float_manhattan2, 4);

/// squared euclidean, dimension 1: non-negative and zero on identical finite inputs
/// (symmetry needs multiplier equivalence, which CBMC does not finish: outside the claim)
pub fn b_float_euclid1<S: Src>(s: &mut S) -> Result<(), String> {
    let a = [s.f32()];
    let b = [s.f32()];
    s.assume(a[0].is_finite() && b[0].is_finite());
    let e = euclidean_distance_squared(&a, &b);
    cover!(e > 0.0, "positive distance");
    check!(e >= 0.0, "euclidean^2 non-negative");
    check!(euclidean_distance_squared(&a, &a) == 0.0, "euclidean^2 zero on identical");
    Ok(())
}
harness!(c26_float_euclid1, b_float_euclid1, 3);

/// dimension mismatch conventions (documented: INFINITY / 0.0)
pub fn b_float_mismatch<S: Src>(s: &mut S) -> Result<(), String> {
    let a = [s.f32(), s.f32()];
    let b = [s.f32()];
    check!(euclidean_distance_squared(&a, &b) == f64::INFINITY, "mismatch -> INFINITY");
    check!(manhattan_distance(&b, &a) == f64::INFINITY, "mismatch -> INFINITY");
    check!(dot_product(&a, &b) == 0.0, "mismatch -> 0");
    Ok(())
}
harness!(c26_float_mismatch, b_float_mismatch, 4);

/// int8 kernels, dimension 3, every i8
pub fn b_int8_dist3<S: Src>(s: &mut S) -> Result<(), String> {
    let a = [s.i8(), s.i8(), s.i8()];
    let b = [s.i8(), s.i8(), s.i8()];
    let m = manhattan_distance_int8(&a, &b);
    let d = dot_product_int8(&a, &b);
    cover!(m > 700.0, "large distance");
    check!(m == manhattan_distance_int8(&b, &a), "manhattan_int8 symmetric");
    check!(d == dot_product_int8(&b, &a), "dot_int8 symmetric");
    check!(m >= 0.0, "manhattan_int8 non-negative");
    check!(manhattan_distance_int8(&a, &a) == 0.0, "manhattan_int8 zero on identical");
    check!((m == 0.0) == (a == b), "manhattan_int8 zero iff equal");
    Ok(())
}
harness!(c26_int8_dist3, b_int8_dist3, 5);

/// euclidean_int8 (uses sqrt): dimension 1
pub fn b_int8_euclid1<S: Src>(s: &mut S) -> Result<(), String> {
    let a = [s.i8()];
    let b = [s.i8()];
    let e = euclidean_distance_int8(&a, &b);
    check!(same(e, euclidean_distance_int8(&b, &a)), "euclidean_int8 symmetric");
    check!(e >= 0.0, "euclidean_int8 non-negative");
    check!(euclidean_distance_int8(&a, &a) == 0.0, "euclidean_int8 zero on identical");
    Ok(())
}
harness!(c26_int8_euclid1, b_int8_euclid1, 3);

// ---- temporal builtins (src/temporal_ops.rs): documented saturating arithmetic and interval predicates ----
use inputlayer::temporal_ops::{
    interval_contains, interval_duration, intervals_overlap, point_in_interval, time_add, time_after,
    time_before, time_between, time_decay_linear, time_diff, time_sub, within_last,
};

fn sat(x: i128) -> i64 {
    if x > i64::MAX as i128 {
        i64::MAX
    } else if x < i64::MIN as i128 {
        i64::MIN
    } else {
        x as i64
    }
}

/// time_diff / time_add / time_sub / interval_duration: equal to the exact (i128) result clamped to i64,
/// for every pair of i64 — the documented "saturating arithmetic" contract; never panics.
pub fn b_time_arith<S: Src>(s: &mut S) -> Result<(), String> {
    let a = s.i64();
    let b = s.i64();
    cover!(a as i128 - b as i128 > i64::MAX as i128, "difference overflows upwards");
    cover!((a as i128 + b as i128) < i64::MIN as i128, "sum overflows downwards");
    check!(time_diff(a, b) == sat(a as i128 - b as i128), "time_diff = clamp(t1 - t2)");
    check!(time_add(a, b) == sat(a as i128 + b as i128), "time_add = clamp(ts + d)");
    check!(time_sub(a, b) == sat(a as i128 - b as i128), "time_sub = clamp(ts - d)");
    check!(interval_duration(a, b) == sat(b as i128 - a as i128), "interval_duration = clamp(end - start)");
    Ok(())
}
harness!(c26_time_arith, b_time_arith, 2);

/// comparison predicates: trichotomy, duality, closed-interval membership
pub fn b_time_cmp<S: Src>(s: &mut S) -> Result<(), String> {
    let a = s.i64();
    let b = s.i64();
    let c = s.i64();
    cover!(a == b, "equal timestamps");
    check!(time_before(a, b) == time_after(b, a), "before/after dual");
    let n = time_before(a, b) as u8 + time_after(a, b) as u8 + (a == b) as u8;
    check!(n == 1, "exactly one of before / after / equal");
    check!(time_between(a, b, c) == point_in_interval(a, b, c), "time_between = point_in_interval");
    check!(time_between(a, b, c) == (!time_before(a, b) && !time_after(a, c)), "closed interval membership");
    check!(time_between(a, a, a), "a point is inside its own degenerate interval");
    Ok(())
}
harness!(c26_time_cmp, b_time_cmp, 2);

/// within_last(ts, now, d): the age is the saturated now - ts; true iff 0 <= age <= d
pub fn b_within_last<S: Src>(s: &mut S) -> Result<(), String> {
    let ts = s.i64();
    let now = s.i64();
    let d = s.i64();
    let age = sat(now as i128 - ts as i128);
    cover!(now as i128 - ts as i128 > i64::MAX as i128, "age saturates");
    cover!(within_last(ts, now, d) && d == 0, "zero window hit");
    check!(within_last(ts, now, d) == (age >= 0 && age <= d), "within_last = 0 <= sat(now - ts) <= d");
    if d < 0 {
        check!(!within_last(ts, now, d), "negative window is empty");
    }
    if ts > now {
        check!(!within_last(ts, now, d), "future timestamps are never within the last d");
    }
    if d < i64::MAX && (now as i128 - ts as i128) > d as i128 {
        check!(!within_last(ts, now, d), "older than the window");
    }
    Ok(())
}
harness!(c26_within_last, b_within_last, 2);

/// interval predicates against the point-set meaning of closed intervals, for every i64 endpoint
pub fn b_intervals<S: Src>(s: &mut S) -> Result<(), String> {
    let (s1, e1, s2, e2, p) = (s.i64(), s.i64(), s.i64(), s.i64(), s.i64());
    let ov = intervals_overlap(s1, e1, s2, e2);
    cover!(ov && e1 == s2, "touching intervals");
    cover!(!ov, "disjoint");
    check!(ov == intervals_overlap(s2, e2, s1, e1), "overlap symmetric");
    if point_in_interval(p, s1, e1) && point_in_interval(p, s2, e2) {
        check!(ov, "a common point implies overlap");
    }
    if s1 <= e1 && s2 <= e2 {
        let lo = if s1 > s2 { s1 } else { s2 };
        let hi = if e1 < e2 { e1 } else { e2 };
        check!(ov == (lo <= hi), "overlap iff max(start) <= min(end)");
        if ov {
            check!(point_in_interval(lo, s1, e1) && point_in_interval(lo, s2, e2), "overlap has a witness point");
        }
        check!(interval_contains(s1, e1, s1, e1), "contains reflexive");
        if interval_contains(s1, e1, s2, e2) {
            check!(ov, "containment implies overlap");
        }
    }
    if interval_contains(s1, e1, s2, e2) && point_in_interval(p, s2, e2) {
        check!(point_in_interval(p, s1, e1), "points of the inner interval lie in the outer");
    }
    if s2 <= e2 && point_in_interval(s2, s1, e1) && point_in_interval(e2, s1, e1) {
        check!(interval_contains(s1, e1, s2, e2), "both endpoints inside implies containment");
    }
    Ok(())
}
harness!(c26_intervals, b_intervals, 2);

/// time_decay_linear: result in [0,1], 1.0 for current/future timestamps, 0/1 step for non-positive max age
pub fn b_decay_linear<S: Src>(s: &mut S) -> Result<(), String> {
    let ts = s.i64();
    let now = s.i64();
    let m = s.i64();
    let r = time_decay_linear(ts, now, m);
    cover!(r > 0.0 && r < 1.0, "strictly between");
    check!(r >= 0.0 && r <= 1.0, "linear decay in [0,1]");
    if ts >= now {
        check!(r == 1.0, "current or future timestamp has weight 1");
    }
    if m <= 0 && ts < now {
        check!(r == 0.0, "non-positive max age: past timestamps have weight 0");
    }
    if m > 0 && (now as i128 - ts as i128) >= 2 * (m as i128) {
        check!(r == 0.0, "far beyond max age: weight 0");
    }
    Ok(())
}
harness!(c26_decay_linear, b_decay_linear, 2);

/// symmetric int8 quantisation, dimension 1: a non-zero finite component is the extreme of its own vector and
/// must map to +/-127 (the documented "[-max_abs, max_abs] -> [-127, 127]"); zero maps to zero
pub fn b_quant_sym1<S: Src>(s: &mut S) -> Result<(), String> {
    let x = s.f32();
    s.assume(x.is_finite());
    let q = inputlayer::vector_ops::quantize_vector_symmetric(&[x]);
    cover!(x > 0.0 && x < 1e-6, "tiny positive component");
    check!(q.len() == 1, "length preserved");
    if x == 0.0 {
        check!(q[0] == 0, "zero preserved");
    } else if x > 0.0 {
        check!(q[0] == 127, "positive extreme maps to 127");
    } else {
        check!(q[0] == -127, "negative extreme maps to -127");
    }
    Ok(())
}
harness!(c26_quant_sym1, b_quant_sym1, 3);

pub fn register(v: &mut Vec<(&'static str, NativeBody)>) {
    v.push(("c26_hamming", b_hamming::<NativeSrc>));
    v.push(("c26_probes_h0_p3", b_probes_h0_p3::<NativeSrc>));
    v.push(("c26_probes_h1_p4", b_probes_h1_p4::<NativeSrc>));
    v.push(("c26_probes_h2_p0", b_probes_h2_p0::<NativeSrc>));
    v.push(("c26_probes_h2_p8", b_probes_h2_p8::<NativeSrc>));
    v.push(("c26_probes_h3_p8", b_probes_h3_p8::<NativeSrc>));
    v.push(("c26_probes_h4_p16", b_probes_h4_p16::<NativeSrc>));
    v.push(("c26_probes_h62_p3", b_probes_h62_p3::<NativeSrc>));
    v.push(("c26_probes_h64_p3", b_probes_h64_p3::<NativeSrc>));
    v.push(("c26_float_manhattan1", b_float_manhattan1::<NativeSrc>));
    v.push(("c26_float_manhattan2", b_float_manhattan2::<NativeSrc>));
    v.push(("c26_float_euclid1", b_float_euclid1::<NativeSrc>));
    v.push(("c26_float_mismatch", b_float_mismatch::<NativeSrc>));
    v.push(("c26_int8_dist3", b_int8_dist3::<NativeSrc>));
    v.push(("c26_int8_euclid1", b_int8_euclid1::<NativeSrc>));
    v.push(("c26_time_arith", b_time_arith::<NativeSrc>));
    v.push(("c26_time_cmp", b_time_cmp::<NativeSrc>));
    v.push(("c26_within_last", b_within_last::<NativeSrc>));
    v.push(("c26_intervals", b_intervals::<NativeSrc>));
    v.push(("c26_decay_linear", b_decay_linear::<NativeSrc>));
    v.push(("c26_quant_sym1", b_quant_sym1::<NativeSrc>));
}
