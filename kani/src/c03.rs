use crate::NativeBody;
pub fn register(_v: &mut Vec<(&'static str, NativeBody)>) {}
