//! C03 (guard) — `contains_join` must refuse partitioning for every operator that does not
//! distribute over a union of input partitions.
use crate::{cover, harness, NativeBody, NativeSrc, Src};
use inputlayer::ir::{AggregateFunction, IRExpression, IRNode, Predicate};
use inputlayer::CodeGenerator;

fn scan(name: &str) -> IRNode {
    IRNode::Scan { relation: String::from(name), schema: vec![String::from("c0"), String::from("c1")] }
}

/// One operator of kind k (0..11, every IRNode variant but HnswScan) over the given child.
fn wrap(k: u8, child: IRNode) -> IRNode {
    let sch = || vec![String::from("c0"), String::from("c1")];
    match k {
        0 => child,
        1 => IRNode::Map { input: Box::new(child), projection: vec![1, 0], output_schema: sch() },
        2 => IRNode::Filter { input: Box::new(child), predicate: Predicate::ColumnGtConst(0, 1) },
        3 => IRNode::Join { left: Box::new(child), right: Box::new(scan("s")), left_keys: vec![0], right_keys: vec![0], output_schema: sch() },
        4 => IRNode::Distinct { input: Box::new(child) },
        5 => IRNode::Union { inputs: vec![child, scan("s")] },
        6 => IRNode::Aggregate { input: Box::new(child), group_by: vec![0], aggregations: vec![(AggregateFunction::Count, 1)], output_schema: sch() },
        7 => IRNode::Antijoin { left: Box::new(child), right: Box::new(scan("s")), left_keys: vec![0], right_keys: vec![0], output_schema: sch() },
        8 => IRNode::Compute { input: Box::new(child), expressions: vec![(String::from("x"), IRExpression::IntConstant(1))] },
        9 => IRNode::FlatMap { input: Box::new(child), projection: vec![0], filter_predicate: None, output_schema: vec![String::from("c0")] },
        10 => IRNode::JoinFlatMap { left: Box::new(child), right: Box::new(scan("s")), left_keys: vec![0], right_keys: vec![0], projection: vec![0], filter_predicate: None, output_schema: vec![String::from("c0")] },
        _ => IRNode::Union { inputs: vec![scan("s"), child] },
    }
}

/// operators whose result over the union of partitions differs from the union of per-partition results
fn needs_colocation(k: u8) -> bool {
    matches!(k, 3 | 6 | 7 | 10)
}

pub fn b_guard<S: Src>(s: &mut S) -> Result<(), String> {
    let outer = s.u8();
    let inner = s.u8();
    s.assume(outer < 12 && inner < 12);
    let ir = wrap(outer, wrap(inner, scan("r")));
    let guard = CodeGenerator::verif_contains_join(&ir);
    cover!(outer == 6 && inner == 1, "aggregate over map");
    cover!(!guard, "some plan is partitioned");
    let r = if (needs_colocation(outer) || needs_colocation(inner)) && !guard {
        Err(String::from("guard lets a non-distributive operator be partitioned"))
    } else {
        Ok(())
    };
    std::mem::forget(ir);
    r
}
harness!(c03_guard, b_guard, 4);

pub fn register(v: &mut Vec<(&'static str, NativeBody)>) {
    v.push(("c03_guard", b_guard::<NativeSrc>));
}
