//! C05 (leaf kernel) — `remap_projection_for_join_flatmap` reads the same cell in the fused
//! JoinFlatMap's (left ++ all right) row as the index did in the Join's (left ++ right∖keys) row.
use crate::{cover, harness, NativeBody, NativeSrc, Src};
use inputlayer::Optimizer;

/// left width lw (0..=3), right width 3, right key list of length 0..=2 (duplicates allowed),
/// arbitrary output index within the join's width; cell identity instead of values: cells are
/// numbered 0..lw+3 so equality of cells is equality of positions.
fn remap_law<S: Src>(s: &mut S, nkeys: usize) -> Result<(), String> {
    let lw = s.u8() as usize;
    s.assume(lw <= 3);
    let k0 = s.u8() as usize;
    let k1 = s.u8() as usize;
    s.assume(k0 < 3 && k1 < 3);
    let keys_arr = [k0, k1];
    let keys = &keys_arr[..nkeys];
    // join output: left cells 0..lw, then right cells (lw + j) for j not in keys
    let mut out = [0usize; 6];
    let mut n = 0;
    let mut i = 0;
    while i < lw {
        out[n] = i;
        n += 1;
        i += 1;
    }
    let mut j = 0;
    while j < 3 {
        let mut is_key = false;
        let mut t = 0;
        while t < nkeys {
            if keys[t] == j {
                is_key = true;
            }
            t += 1;
        }
        if !is_key {
            out[n] = lw + j;
            n += 1;
        }
        j += 1;
    }
    let idx = s.u8() as usize;
    s.assume(idx < n);
    let proj = [idx];
    let r = Optimizer::verif_remap_projection_for_join_flatmap(&proj, lw, keys);
    cover!(idx >= lw, "right-side index");
    let res = if r.len() != 1 {
        Err(String::from("remap changes the projection length"))
    } else if r[0] != out[idx] {
        // concat row of JoinFlatMap is cells 0..lw+3 in order, so position == cell id
        Err(String::from("remapped index reads a different cell"))
    } else {
        Ok(())
    };
    std::mem::forget(r);
    res
}

pub fn b_remap0<S: Src>(s: &mut S) -> Result<(), String> {
    remap_law(s, 0)
}
harness!(c05_remap0, b_remap0, 8);
pub fn b_remap1<S: Src>(s: &mut S) -> Result<(), String> {
    remap_law(s, 1)
}
harness!(c05_remap1, b_remap1, 8);
pub fn b_remap2<S: Src>(s: &mut S) -> Result<(), String> {
    remap_law(s, 2)
}
harness!(c05_remap2, b_remap2, 8);

pub fn register(v: &mut Vec<(&'static str, NativeBody)>) {
    v.push(("c05_remap0", b_remap0::<NativeSrc>));
    v.push(("c05_remap1", b_remap1::<NativeSrc>));
    v.push(("c05_remap2", b_remap2::<NativeSrc>));
}
