"""Engine M, second executor: bit-vector symbolic execution of rustc MIR with a small heap, callee inlining and
loop cutting (havoc at the loop header + user-supplied inductive hypothesis).  Used for `bloom_filter::BloomFilter`
(C36): all usize/u64 values are 64-bit bit-vectors with wrapping semantics, `Vec<u64>` is an SMT array with a
length, hashing is uninterpreted (DefaultHasher::new is a constant, Hash::hash and finish are functions of their
inputs - the documented contract), floats are opaque (every float-to-int cast is an arbitrary usize).

Nothing here is specific to a filter size or a number of hash functions: the verdicts hold for every shape the
constructors can return and every number of loop iterations (induction over the loop, one step per query).
"""
import re, time
import z3

W = 64


class MirError(Exception):
    pass


def bv(x):
    if isinstance(x, bool):
        raise MirError("bool used as integer")
    if isinstance(x, int):
        return z3.BitVecVal(x % (1 << W), W)
    return x


def bo(x):
    if isinstance(x, bool):
        return z3.BoolVal(x)
    return x


class Struct:
    def __init__(self, name, fields):
        self.name, self.f = name, list(fields)


class VecV:
    def __init__(self, arr, ln):
        self.arr, self.len = arr, ln


class OptV:
    def __init__(self, is_some, val):
        self.is_some, self.val = is_some, val


class FloatV:
    """opaque float"""
    pass


class Hasher:
    def __init__(self, state):
        self.state = state


class Ptr:
    """kinds: obj (points to a heap object), local (env, name), field (Struct, idx), elem (VecV, idx)"""
    def __init__(self, kind, base, key=None):
        self.kind, self.base, self.key = kind, base, key

    def load(self):
        if self.kind == "obj":
            return self.base
        if self.kind == "local":
            return self.base[self.key]
        if self.kind == "field":
            return self.base.f[self.key]
        if self.kind == "elem":
            return z3.Select(self.base.arr, self.key)
        raise MirError("ptr kind")

    def store(self, v):
        if self.kind == "local":
            self.base[self.key] = v
        elif self.kind == "field":
            self.base.f[self.key] = v
        elif self.kind == "elem":
            self.base.arr = z3.Store(self.base.arr, self.key, bv(v))
        else:
            raise MirError("store through object pointer")


def clone(x, memo):
    """copy the mutable part of a state (z3 terms are immutable and shared)"""
    i = id(x)
    if i in memo:
        return memo[i]
    if isinstance(x, dict):
        r = {}
        memo[i] = r
        for k, v in x.items():
            r[k] = clone(v, memo)
        return r
    if isinstance(x, Struct):
        r = Struct(x.name, [])
        memo[i] = r
        r.f = [clone(v, memo) for v in x.f]
        return r
    if isinstance(x, VecV):
        r = VecV(x.arr, x.len)
        memo[i] = r
        return r
    if isinstance(x, OptV):
        r = OptV(x.is_some, clone(x.val, memo))
        memo[i] = r
        return r
    if isinstance(x, Hasher):
        r = Hasher(x.state)
        memo[i] = r
        return r
    if isinstance(x, Ptr):
        r = Ptr(x.kind, None, x.key)
        memo[i] = r
        r.base = clone(x.base, memo)
        return r
    if isinstance(x, (tuple, list)):
        r = [clone(v, memo) for v in x]
        return tuple(r) if isinstance(x, tuple) else r
    return x


def parse_module(mir_text, impl_prefix):
    """all functions of one impl block: name -> {args, blocks}"""
    fns = {}
    for m in re.finditer(r"^fn " + re.escape(impl_prefix) + r"::(\w+)\((.*?)\) -> ([^\n]*?) \{\n(.*?)^\}", mir_text, re.M | re.S):
        name, sig, ret, body = m.groups()
        blocks = {}
        for b in re.finditer(r"^    (bb\d+)(?: \(cleanup\))?: \{\n(.*?)^    \}", body, re.M | re.S):
            blocks[b.group(1)] = [l.strip().rstrip(";") for l in b.group(2).strip().split("\n") if l.strip()]
        args = re.findall(r"(_\d+): ([^,]+(?:<[^>]*>)?[^,]*)", sig)
        fns[name] = {"name": name, "args": [a for a, _ in args], "argtypes": [t.strip() for _, t in args],
                     "ret": ret, "blocks": blocks}
    return fns


SKIP = ("StorageLive", "StorageDead", "nop", "FakeRead", "PlaceMention", "Retag", "AscribeUserType", "Coverage")

UF = {}


def uf(name, *sorts):
    if name not in UF:
        UF[name] = z3.Function(name, *sorts)
    return UF[name]


BVS = z3.BitVecSort(W)


class Exec:
    """Executes one function; returns a list of paths (kind, conds, value, env).
    kinds: return, panic, backedge (arrived at the cut block for the second time), diverge."""

    def __init__(self, fns, struct_fields, cut=None, on_cut=None, assumptions=None, fresh_prefix="x"):
        self.fns = fns
        self.struct_fields = struct_fields     # {"BloomFilter": ["bits","num_bits","num_hashes","count"]}
        self.cut, self.on_cut = cut, on_cut    # cut: (fn name, bb); on_cut(env) -> list of assumptions (havocs env)
        self.steps = 0
        self.nfresh = 0
        self.fresh_prefix = fresh_prefix
        self.notes = set()

    def fresh(self, what="v", sort=None):
        self.nfresh += 1
        return z3.Const(f"{self.fresh_prefix}!{what}{self.nfresh}", BVS if sort is None else sort)

    # ---- places ---------------------------------------------------------------------------------
    def place_ptr(self, p, env):
        p = p.strip()
        if re.match(r"^_\d+$", p):
            return Ptr("local", env, p)
        if p.startswith("(*") and p.endswith(")"):
            inner = self.place_ptr(p[2:-1], env).load()
            if not isinstance(inner, Ptr):
                raise MirError(f"deref of non-pointer in {p}")
            return inner
        m = re.match(r"^\((.+)\.(\d+): [^()]*(?:\([^()]*\))?[^()]*\)$", p)
        if m:
            base = self.place_ptr(m.group(1), env).load()
            idx = int(m.group(2))
            if isinstance(base, Struct):
                return Ptr("field", base, idx)
            if isinstance(base, tuple):
                return Ptr("obj", base[idx])
            if isinstance(base, OptV):            # (_x as Some).0
                return Ptr("obj", base.val)
            raise MirError(f"field of {type(base).__name__} in {p}")
        m = re.match(r"^\((.+) as Some\)$", p)
        if m:
            return self.place_ptr(m.group(1), env)
        raise MirError(f"place {p!r}")

    def read(self, p, env):
        return self.place_ptr(p, env).load()

    def operand(self, tok, env):
        tok = tok.strip()
        m = re.match(r"^(?:copy|move) (.+)$", tok)
        if m:
            return self.read(m.group(1), env)
        m = re.match(r"^const (-?\d+)_(usize|u64|isize|i64|u8|i32|u32)$", tok)
        if m:
            return int(m.group(1))
        if tok in ("const true", "const false"):
            return tok == "const true"
        if re.match(r"^const -?[\d.eE+-]+f(64|32)$", tok):
            return FloatV()
        if tok.startswith("const "):
            return ("const", tok)
        raise MirError(f"operand {tok!r}")

    # ---- rvalues --------------------------------------------------------------------------------
    def rvalue(self, r, env):
        r = r.strip()
        m = re.match(r"^&(?:mut |raw (?:mut|const) )?(.+)$", r)
        if m:
            pp = self.place_ptr(m.group(1), env)
            v = None
            # a reference to a place that holds an object: point to the object so that (*r).f works
            try:
                v = pp.load()
            except Exception:
                v = None
            if isinstance(v, (Struct, VecV, Hasher)):
                return Ptr("obj", v)
            if isinstance(v, Ptr) and m.group(1).startswith("(*"):
                return v
            return pp
        m = re.match(r"^(.+) as (\w+) \((\w+)\)$", r)
        if m:
            v = self.operand(m.group(1), env)
            kind = m.group(3)
            if kind == "IntToInt":
                if m.group(2) not in ("u64", "usize"):
                    raise MirError(f"cast to {m.group(2)}")
                return v
            if kind == "IntToFloat":
                return FloatV()
            if kind == "FloatToInt":
                self.notes.add("float-to-int casts are arbitrary usize values (floats are opaque)")
                return self.fresh("f2i")
            raise MirError(f"cast kind {kind}")
        m = re.match(r"^(\w+)\((.+)\)$", r)
        if m and m.group(1) in ("Eq", "Ne", "Lt", "Le", "Gt", "Ge", "Add", "Sub", "Mul", "Div", "Rem", "Shl", "Shr",
                                "BitOr", "BitAnd", "BitXor", "AddWithOverflow", "SubWithOverflow", "MulWithOverflow",
                                "Not", "Neg", "AddUnchecked", "SubUnchecked", "MulUnchecked", "ShlUnchecked", "ShrUnchecked"):
            op = m.group(1)
            args = self.split_args(m.group(2))
            vals = [self.operand(a, env) for a in args]
            if any(isinstance(v, FloatV) for v in vals):
                if op in ("Eq", "Ne", "Lt", "Le", "Gt", "Ge"):
                    self.notes.add("float comparisons are arbitrary booleans (floats are opaque)")
                    return self.fresh("fcmp", z3.BoolSort())
                return FloatV()
            if op == "Not":
                v = vals[0]
                if isinstance(v, bool) or z3.is_bool(v):
                    return z3.Not(bo(v))
                return ~bv(v)
            a, b = vals
            if isinstance(a, bool) or (not isinstance(a, int) and z3.is_bool(a)):
                a, b = bo(a), bo(b)
                if op == "Eq":
                    return a == b
                if op == "Ne":
                    return a != b
                if op in ("BitAnd",):
                    return z3.And(a, b)
                if op in ("BitOr",):
                    return z3.Or(a, b)
                raise MirError(f"bool op {op}")
            a, b = bv(a), bv(b)
            op = op.replace("Unchecked", "")
            if op == "Eq":
                return a == b
            if op == "Ne":
                return a != b
            if op == "Lt":
                return z3.ULT(a, b)
            if op == "Le":
                return z3.ULE(a, b)
            if op == "Gt":
                return z3.UGT(a, b)
            if op == "Ge":
                return z3.UGE(a, b)
            if op == "Add":
                return a + b
            if op == "Sub":
                return a - b
            if op == "Mul":
                return a * b
            if op == "Div":
                return z3.UDiv(a, b)
            if op == "Rem":
                return z3.URem(a, b)
            if op == "Shl":
                return a << b
            if op == "Shr":
                return z3.LShR(a, b)
            if op == "BitOr":
                return a | b
            if op == "BitAnd":
                return a & b
            if op == "BitXor":
                return a ^ b
            if op == "AddWithOverflow":
                return (a + b, z3.Not(z3.BVAddNoOverflow(a, b, False)))
            if op == "SubWithOverflow":
                return (a - b, z3.ULT(a, b))
            if op == "MulWithOverflow":
                return (a * b, z3.Not(z3.BVMulNoOverflow(a, b, False)))
            raise MirError(f"binop {op}")
        m = re.match(r"^discriminant\((.+)\)$", r)
        if m:
            v = self.read(m.group(1), env)
            if isinstance(v, OptV):
                return z3.If(bo(v.is_some), bv(1), bv(0))
            raise MirError("discriminant of non-option")
        m = re.match(r"^std::ops::Range::<usize> \{ start: (.+), end: (.+) \}$", r)
        if m:
            return Struct("Range", [self.operand(m.group(1), env), self.operand(m.group(2), env)])
        m = re.match(r"^(\w+) \{ (.+) \}$", r)
        if m and m.group(1) in self.struct_fields:
            names = self.struct_fields[m.group(1)]
            got = {}
            for part in self.split_args(m.group(2)):
                k, v = part.split(":", 1)
                got[k.strip()] = self.operand(v, env)
            return Struct(m.group(1), [got[n] for n in names])
        m = re.match(r"^\((.+,.*)\)$", r)
        if m and not r.startswith(("(copy", "(move", "(*", "((")) or (m and re.match(r"^\((copy|move|const) [^()]+(, (copy|move|const) [^()]+)+\)$", r)):
            return tuple(self.operand(a, env) for a in self.split_args(m.group(1)))
        return self.operand(r, env)

    def split_args(self, s):
        out, depth, cur = [], 0, ""
        for ch in s:
            if ch in "(<[{":
                depth += 1
            if ch in ")>]}":
                depth -= 1
            if ch == "," and depth == 0:
                out.append(cur)
                cur = ""
            else:
                cur += ch
        if cur.strip():
            out.append(cur)
        return [x.strip() for x in out]

    # ---- calls ----------------------------------------------------------------------------------
    def call(self, f, args, env):
        """returns list of (value, extra_conds, panic_cond or None); user functions are inlined"""
        a = [self.operand(x, env) for x in args]
        if re.search(r"impl u(64|size)>::wrapping_mul$", f):
            return [(bv(a[0]) * bv(a[1]), [], None)]
        if re.search(r"impl u(64|size)>::wrapping_add$", f):
            return [(bv(a[0]) + bv(a[1]), [], None)]
        if re.search(r"impl u(64|size)>::wrapping_sub$", f):
            return [(bv(a[0]) - bv(a[1]), [], None)]
        if f.endswith("as std::cmp::Ord>::max"):
            x, y = bv(a[0]), bv(a[1])
            return [(z3.If(z3.UGE(y, x), y, x), [], None)]
        if f.endswith("as std::cmp::Ord>::min"):
            x, y = bv(a[0]), bv(a[1])
            return [(z3.If(z3.ULE(x, y), x, y), [], None)]
        if f.endswith("as std::cmp::Ord>::clamp"):
            x, lo, hi = bv(a[0]), bv(a[1]), bv(a[2])
            return [(z3.If(z3.ULT(x, lo), lo, z3.If(z3.UGT(x, hi), hi, x)), [], z3.UGT(lo, hi))]
        if re.search(r"impl usize>::div_ceil$", f):
            x, y = bv(a[0]), bv(a[1])
            q = z3.UDiv(x, y) + z3.If(z3.URem(x, y) != 0, bv(1), bv(0))
            return [(q, [], y == 0)]
        if re.search(r"std::vec::from_elem::<u64>$", f):
            # contract: returns only if the allocation (n * 8 bytes <= isize::MAX) succeeds; otherwise it
            # panics/aborts, which is outside the property (no filter exists)
            n = bv(a[1])
            self.notes.add("vec![x; n] returns only when the allocation succeeds: n <= 2^40 words (8 TiB) is assumed; "
                           "for larger n no filter is created")
            return [(VecV(z3.K(BVS, bv(a[0])), n), [z3.ULE(n, bv(1 << 40))], None)]
        if re.search(r"<Vec<u64> as (std::ops::)?IndexMut<usize>>::index_mut$", f) or re.search(r"<Vec<u64> as (std::ops::)?Index<usize>>::index$", f):
            v = a[0].load() if isinstance(a[0], Ptr) else a[0]
            if not isinstance(v, VecV):
                raise MirError("index on non-vec")
            i = bv(a[1])
            return [(Ptr("elem", v, i), [], z3.UGE(i, v.len))]
        if f.endswith("as DerefMut>::deref_mut") or f.endswith("as Deref>::deref") or f.endswith("::as_mut_slice") or f.endswith("::as_slice"):
            return [(a[0], [], None)]
        if re.search(r"impl \[u64\]>::fill$", f):
            v = a[0].load() if isinstance(a[0], Ptr) else a[0]
            v.arr = z3.K(BVS, bv(a[1]))
            return [((), [], None)]
        if re.search(r"<Vec<u64> as .*>::len$|Vec::<u64>::len$|impl \[u64\]>::len$", f):
            v = a[0].load() if isinstance(a[0], Ptr) else a[0]
            return [(v.len, [], None)]
        if f.endswith("as IntoIterator>::into_iter") and "Range<usize>" in f:
            return [(a[0], [], None)]
        if f == "<std::ops::Range<usize> as Iterator>::next":
            r = a[0].load() if isinstance(a[0], Ptr) else a[0]
            s, e = bv(r.f[0]), bv(r.f[1])
            has = z3.ULT(s, e)
            r.f[0] = z3.If(has, s + 1, s)
            return [(OptV(has, s), [], None)]
        if f == "DefaultHasher::new" or f.endswith("DefaultHasher::new") or f.endswith("DefaultHasher as Default>::default"):
            return [(Hasher(z3.Const("hasher0", BVS)), [], None)]
        m = re.match(r"^<(\w+) as Hash>::hash::<DefaultHasher>$", f)
        if m:
            h = a[1].load() if isinstance(a[1], Ptr) else a[1]
            v = a[0]
            while isinstance(v, Ptr):
                v = v.load()
            fn = uf("hash_" + m.group(1), BVS, BVS, BVS)
            h.state = fn(bv(v), h.state)
            return [((), [], None)]
        if f.endswith("as std::hash::Hasher>::finish") or f.endswith("as Hasher>::finish"):
            h = a[0].load() if isinstance(a[0], Ptr) else a[0]
            return [(uf("finish", BVS, BVS)(h.state), [], None)]
        if f.startswith("Arguments::") or "fmt::Arguments" in f:
            return [(("opaque", f), [], None)]
        if re.search(r"impl f64>::(ln|powi|ceil|floor|sqrt|exp|log2|round|abs|max|min|clamp)$", f) or re.search(r"impl f32>::\w+$", f):
            return [(FloatV(), [], None)]
        m = re.match(r"^(?:\w+::)*(\w+)::(\w+)(?:::<.*>)?$", f)
        if m and m.group(2) in self.fns and m.group(1) in self.struct_fields:
            return ("inline", m.group(2), a)
        raise MirError(f"no model for call {f}")

    # ---- control ---------------------------------------------------------------------------------
    def run(self, fname, argvals, conds=None):
        fn = self.fns[fname]
        env = {}
        for n, v in zip(fn["args"], argvals):
            env[n] = v
        out = []
        self.block(fn, "bb0", env, list(conds or []), out, {"cut_seen": False}, None)
        return out

    def block(self, fn, bb, env, conds, out, flags, argroot):
        while True:
            self.steps += 1
            if self.steps > 20000:
                raise MirError("step limit (unexpected loop?)")
            if self.cut and (fn["name"], bb) == self.cut:
                if flags["cut_seen"]:
                    out.append(("backedge", conds, None, env))
                    return
                flags = dict(flags, cut_seen=True)
                pre_env = clone(env, {})
                conds = conds + [("cut-entry", pre_env)]
                conds = conds + list(self.on_cut(env))
            nxt = None
            for line in fn["blocks"][bb]:
                if line.startswith(SKIP):
                    continue
                if line == "return":
                    out.append(("return", conds, env.get("_0"), env))
                    return
                if line == "unreachable":
                    out.append(("unreachable", conds, None, env))
                    return
                if line.startswith("resume"):
                    out.append(("panic", conds, None, env))
                    return
                m = re.match(r"^goto -> (bb\d+)$", line)
                if m:
                    nxt = m.group(1)
                    break
                m = re.match(r"^drop\((.+?)\) -> \[return: (bb\d+), unwind[^\]]*\]$", line)
                if m:
                    nxt = m.group(2)
                    break
                m = re.match(r"^switchInt\((.+?)\) -> \[(.+)\]$", line)
                if m:
                    v = self.operand(m.group(1), env)
                    arms = [x.strip() for x in m.group(2).split(",")]
                    seen = []
                    for arm in arms:
                        k, tgt = [x.strip() for x in arm.split(":")]
                        if k == "otherwise":
                            c = z3.And(*[z3.Not(x) for x in seen]) if seen else z3.BoolVal(True)
                        else:
                            kv = int(k)
                            if isinstance(v, bool) or (not isinstance(v, int) and z3.is_bool(v)):
                                c = bo(v) if kv else z3.Not(bo(v))
                            else:
                                c = bv(v) == bv(kv)
                            seen.append(c)
                        c = z3.simplify(c)
                        if z3.is_false(c):
                            continue
                        if flags.get("inlined"):
                            raise MirError(f"branch inside inlined callee {fn['name']} (not supported)")
                        e2 = clone(env, {})
                        self.block(fn, tgt, e2, conds + [c], out, flags, argroot)
                    return
                m = re.match(r"^assert\((!?)(.+?), .*\) -> \[success: (bb\d+), unwind[^\]]*\]$", line)
                if m:
                    v = bo(self.operand(m.group(2), env))
                    ok = z3.simplify(z3.Not(v) if m.group(1) else v)
                    if not z3.is_true(ok):
                        out.append(("panic", conds + [z3.Not(ok)], line, env))
                        conds = conds + [ok]
                    nxt = m.group(3)
                    break
                m = re.match(r"^(.+?) = (.+?)\((.*)\) -> \[return: (bb\d+), unwind[^\]]*\]$", line)
                if m:
                    dst, f, args, tgt = m.groups()
                    res = self.call(f, self.split_args(args), env)
                    if isinstance(res, tuple) and res[0] == "inline":
                        callee = self.fns[res[1]]
                        cenv = {n: v for n, v in zip(callee["args"], res[2])}
                        sub_out = []
                        self.block(callee, "bb0", cenv, conds, sub_out, dict(flags, inlined=True, cut_seen=True), None)
                        rets = [p for p in sub_out if p[0] == "return"]
                        if len(rets) != 1:
                            raise MirError(f"inlined callee {res[1]} has {len(rets)} return paths")
                        for kind, c2, val, _e in sub_out:
                            if kind != "return":
                                out.append((kind, c2, val, env))
                        _, conds, val, _e = rets[0]
                        self.place_ptr(dst, env).store(val)
                        nxt = tgt
                        break
                    if len(res) != 1:
                        raise MirError("multi-result call")
                    val, extra, bad = res[0]
                    conds = conds + list(extra)
                    if bad is not None:
                        bad = z3.simplify(bad)
                        if not z3.is_false(bad):
                            out.append(("panic", conds + [bad], f, env))
                            conds = conds + [z3.Not(bad)]
                    self.place_ptr(dst, env).store(val)
                    nxt = tgt
                    break
                m = re.match(r"^(.+?) = (.+?)\((.*)\) -> unwind", line)
                if m:      # diverging call (panic_fmt & co)
                    out.append(("panic", conds, line, env))
                    return
                m = re.match(r"^(.+?) = (.+)$", line)
                if m:
                    val = self.rvalue(m.group(2), env)
                    self.place_ptr(m.group(1), env).store(val)
                    continue
                raise MirError(f"statement {line!r}")
            if nxt is None:
                raise MirError(f"block {bb} fell through")
            bb = nxt


# -------------------------------------------------------------------------------------------------
# BloomFilter obligations
# -------------------------------------------------------------------------------------------------

IMPL = None


def find_impl(mir_text):
    m = re.search(r"^fn (bloom_filter::<impl at src/bloom_filter\.rs:\d+:\d+: \d+:\d+>)::might_contain\(", mir_text, re.M)
    if not m:
        raise MirError("BloomFilter::might_contain not found in MIR")
    return m.group(1)


FIELDS = {"BloomFilter": ["bits", "num_bits", "num_hashes", "count"]}


def solve(cs, timeout_ms):
    s = z3.Solver()
    s.set("timeout", timeout_ms)
    for c in cs:
        s.add(c)
    t0 = time.time()
    r = s.check()
    dt = time.time() - t0
    return str(r), (s.model() if r == z3.sat else None), dt


def plain(conds):
    return [c for c in conds if not isinstance(c, tuple)]


def check_bloom(mir_text, native=None, timeout_ms=60000):
    """native(job dict) -> reply of the real BloomFilter (ilp job `bloom`)."""
    global UF
    UF = {}
    impl = find_impl(mir_text)
    fns = parse_module(mir_text, impl)
    need = ["with_params", "new", "insert", "might_contain", "clear", "hash_pair", "get_bit_index"]
    for n in need:
        if n not in fns:
            raise MirError(f"BloomFilter::{n} not found")
    # order of struct fields from the aggregate in with_params
    agg = [l for b in fns["with_params"]["blocks"].values() for l in b if "BloomFilter {" in l]
    if agg:
        FIELDS["BloomFilter"] = [p.split(":")[0].strip() for p in re.search(r"\{ (.+) \}", agg[0]).group(1).split(", ")]
    names = FIELDS["BloomFilter"]
    if names != ["bits", "num_bits", "num_hashes", "count"]:
        # field *indices* in places follow declaration order; the executor relies on the aggregate listing them in
        # that order, which rustc's pretty printer does
        pass
    results, violations, inconclusive, notes = [], [], [], set()
    queries, solver_s = 0, 0.0
    mutators = [n for n, f in fns.items() if f["argtypes"] and f["argtypes"][0].startswith("&mut BloomFilter")]

    # ---------- 1. constructors: every non-panicking path yields a shape (len, num_bits, num_hashes) ----------
    shapes = []   # (ctor, path conds, len, nb, k, inputs)
    m_, k_ = z3.BitVec("m", W), z3.BitVec("k", W)
    ex = Exec(fns, FIELDS, fresh_prefix="wp")
    for kind, conds, val, _ in ex.run("with_params", [m_, k_]):
        if kind == "return":
            shapes.append(("with_params", plain(conds), val.f[0].len, val.f[1], val.f[2], {"m": m_, "k": k_}, val))
    notes |= ex.notes
    n_ = z3.BitVec("n", W)
    ex = Exec(fns, FIELDS, fresh_prefix="nw")
    for kind, conds, val, _ in ex.run("new", [n_, FloatV()]):
        if kind == "return":
            shapes.append(("new", plain(conds), val.f[0].len, val.f[1], val.f[2], {"n": n_}, val))
    notes |= ex.notes
    if len(shapes) < 2:
        inconclusive.append("a constructor has no returning path")

    def state(shape, tag):
        """an arbitrary reachable filter of this shape: bit contents and count arbitrary (over-approximation of
        every history of insert/clear, justified by the frame obligation below)"""
        ctor, conds, ln, nb, k, ins, _ = shape
        st = Struct("BloomFilter", [VecV(z3.Array(f"bits_{tag}", BVS, BVS), ln), nb, k, z3.BitVec(f"count_{tag}", W)])
        return st

    # ---------- 2. frame: no &mut method changes len(bits), num_bits, num_hashes ----------
    for mname in mutators:
        ln0, nb0, k0 = z3.BitVecs("f_len f_nb f_k", W)
        st = Struct("BloomFilter", [VecV(z3.Array("f_bits", BVS, BVS), ln0), nb0, k0, z3.BitVec("f_count", W)])
        key = z3.BitVec("key", W)
        cut = None
        loops = loop_header(fns[mname])
        ex = Exec(fns, FIELDS, cut=(mname, loops) if loops else None, fresh_prefix="fr_" + mname)

        def on_cut(env, st=st):
            # havoc what the loop may write: the iterator position and the bit array contents
            for name, v in env.items():
                if isinstance(v, Struct) and v.name == "Range":
                    v.f[0] = ex.fresh("it")
            cur = find_struct(env, "BloomFilter")
            cur.f[0].arr = z3.Array("f_bits_h", BVS, BVS)
            cur.f[3] = ex.fresh("cnt")
            return []
        ex.on_cut = on_cut
        argv = [Ptr("obj", st)] + ([Ptr("obj", key)] if len(fns[mname]["args"]) > 1 else [])
        try:
            paths = ex.run(mname, argv)
        except MirError as e:
            inconclusive.append(f"{mname}: {e}")
            continue
        for kind, conds, val, env in paths:
            if kind in ("return", "backedge"):
                # each path carries its own copy of the state
                stp = find_struct(env, "BloomFilter") or st
                changed = z3.Or(stp.f[0].len != ln0, bv(stp.f[1]) != nb0, bv(stp.f[2]) != k0)
                v, mdl, dt = solve(plain(conds) + [changed], timeout_ms)
                queries += 1
                solver_s += dt
                results.append({"obligation": f"frame: {mname} leaves bits.len(), num_bits, num_hashes unchanged ({kind} path)",
                                "verdict": v, "solver_ms": int(dt * 1000)})
                if v == "sat":
                    inconclusive.append(f"{mname} changes the filter's shape: the per-shape induction does not apply")
                elif v != "unsat":
                    inconclusive.append(f"frame of {mname} undecided")

    # ---------- 3. per shape: one inductive step of insert / might_contain ----------
    validated = 0
    for si, shape in enumerate(shapes):
        ctor, sconds, ln, nb, k, ins, _ = shape
        key = z3.BitVec("key", W)
        other = z3.BitVec("other_key", W)
        jstar = z3.BitVec("jstar", W)

        # might_contain(key), one iteration at an arbitrary position j over an arbitrary bit array:
        # Cont(j, bits) = the iteration does not return false
        def mc_step(bits_arr, j, tag):
            st = state(shape, "mc" + tag)
            st.f[0].arr = bits_arr
            ex = Exec(fns, FIELDS, cut=("might_contain", loop_header(fns["might_contain"])), fresh_prefix="mc" + tag)

            def on_cut(env):
                for name, v in env.items():
                    if isinstance(v, Struct) and v.name == "Range":
                        v.f[0] = j
                return []
            ex.on_cut = on_cut
            paths = ex.run("might_contain", [Ptr("obj", st), Ptr("obj", key)])
            return paths, ex

        j = z3.BitVec("j", W)
        B = z3.Array("B", BVS, BVS)
        paths, ex = mc_step(B, j, "0")
        notes |= ex.notes
        cont, ret_false, ret_true, mc_panics = [], [], [], []
        for kind, conds, val, env in paths:
            pc = z3.And(*plain(conds)) if plain(conds) else z3.BoolVal(True)
            if kind == "backedge":
                cont.append(pc)
            elif kind == "return":
                # exit path of the loop (iterator exhausted) or early return
                rv = bo(val)
                (ret_true if z3.is_true(z3.simplify(rv)) else ret_false).append((pc, rv))
            elif kind == "panic":
                mc_panics.append((pc, val))

        def Cont(jv, arr):
            c = z3.Or(*cont) if cont else z3.BoolVal(False)
            return z3.substitute(c, (j, jv), (B, arr))

        inrange = lambda x: z3.ULT(x, bv(k))
        base = list(sconds)
        small = [z3.ULE(bv(ln), bv(64))] + [z3.ULE(vv, bv(4096)) for vv in ins.values()]

        def discharge(name, cs, on_sat="violation"):
            nonlocal queries, solver_s
            # prefer a counterexample small enough to replay natively, then ask without the restriction
            v, mdl, dt = solve(base + small + cs, timeout_ms)
            queries += 1
            solver_s += dt
            if v != "sat":
                v, mdl, dt2 = solve(base + cs, timeout_ms)
                queries += 1
                solver_s += dt2
                dt += dt2
            r = {"shape": ctor, "obligation": name, "verdict": v, "solver_ms": int(dt * 1000)}
            if v == "sat":
                cex = {kk: mdl.eval(vv, model_completion=True).as_long() for kk, vv in ins.items()}
                cex.update({"len": mdl.eval(ln, model_completion=True).as_long(),
                            "num_bits": mdl.eval(bv(nb), model_completion=True).as_long(),
                            "num_hashes": mdl.eval(bv(k), model_completion=True).as_long()})
                r["counterexample"] = cex
                found = replay_shape(native, ctor, cex)
                r["native"] = found
                if found and found.get("fail_key") is not None:
                    violations.append((ctor, cex, name, found))
                else:
                    inconclusive.append(f"'{name}' has a model {cex} but no failing key was found natively "
                                        f"(the solver's hash values need not be attained by a key)")
            elif v != "unsat":
                inconclusive.append(f"'{name}' undecided ({v})")
            results.append(r)
            return v

        # (a) might_contain never panics at an iteration j < num_hashes, on any bit array
        for pc, what in mc_panics:
            discharge(f"might_contain: no panic in an iteration j < num_hashes [{short(what)}]", [inrange(j), pc])
        # (b) the loop exit of might_contain returns true; a `false` is returned only from an iteration that fails
        for pc, rv in ret_true + ret_false:
            # reachable with every iteration so far continuing: then the result must be true unless this very
            # iteration's bit is clear, i.e. return-false paths must imply "not Cont(j)" - by construction they are
            # disjoint from the continue paths; what has to be checked is that an exhausted iterator returns true
            discharge("might_contain: when the iterator is exhausted the result is true",
                      [z3.Not(inrange(j)), pc, z3.Not(rv)])
        # determinism of a step: continue and return-false conditions are disjoint and cover the iteration
        if cont:
            discharge("might_contain: an iteration either continues or returns false (no third outcome)",
                      [inrange(j), z3.Not(z3.Or(*(cont + [pc for pc, _ in ret_false] + [pc for pc, _ in mc_panics])))])

        # insert(key'), one iteration at position i over an arbitrary bit array B -> B'
        def ins_step(k_ins, tag):
            st = state(shape, "in" + tag)
            st.f[0].arr = B
            i = z3.BitVec("i", W)
            ex = Exec(fns, FIELDS, cut=("insert", loop_header(fns["insert"])), fresh_prefix="in" + tag)

            def on_cut(env):
                for name, v in env.items():
                    if isinstance(v, Struct) and v.name == "Range":
                        v.f[0] = i
                return []
            ex.on_cut = on_cut
            paths = ex.run("insert", [Ptr("obj", st), Ptr("obj", k_ins)])
            return paths, i, ex

        for who, k_ins in (("the same key", key), ("another key", other)):
            paths, i, ex = ins_step(k_ins, "s" if k_ins is key else "o")
            notes |= ex.notes
            for kind, conds, val, env in paths:
                pcs = plain(conds)
                stp = find_struct(env, "BloomFilter")
                if kind == "panic":
                    if is_count_overflow(val):
                        notes.add("insert: `count + 1` overflow after 2^64 insertions is outside the claim")
                        continue
                    discharge(f"insert({who}): no panic [{short(val)}]", pcs)
                    continue
                pre = [c[1] for c in conds if isinstance(c, tuple)]
                if pre and kind == "backedge" and k_ins is other:
                    arr_pre = find_struct(pre[0], "BloomFilter").f[0].arr
                    if not z3.eq(arr_pre, B):
                        discharge(f"insert({who}) prologue keeps every bit might_contain(key) tests",
                                  [inrange(jstar)] + pcs + [Cont(jstar, B), z3.Not(Cont(jstar, arr_pre))])
                if kind == "backedge":
                    B2 = stp.f[0].arr
                    its = [v for v in env.values() if isinstance(v, Struct) and v.name == "Range"]
                    if its:
                        discharge(f"insert({who}) step advances the iterator by one", pcs + [bv(its[0].f[0]) != i + 1])
                    else:
                        inconclusive.append("insert: loop iterator not found at the back edge")
                    # (c) an iteration never clears what might_contain(key) needs: Cont(j*, B) -> Cont(j*, B')
                    discharge(f"insert({who}) step keeps every bit might_contain(key) tests (monotone)",
                              [inrange(i), inrange(jstar)] + pcs + [Cont(jstar, B), z3.Not(Cont(jstar, B2))])
                    if k_ins is key:
                        # (d) iteration i establishes Cont(i, B')
                        discharge("insert(key) step i sets the bit that might_contain(key) tests in its iteration i",
                                  [inrange(i)] + pcs + [z3.Not(Cont(i, B2))])
                if kind == "return" and any(isinstance(c, tuple) for c in conds):
                    # loop exit: bits unchanged by the epilogue
                    B2 = stp.f[0].arr
                    discharge(f"insert({who}) epilogue keeps every bit might_contain(key) tests",
                              [inrange(jstar)] + pcs + [Cont(jstar, B), z3.Not(Cont(jstar, B2))])

        # the loops of insert and might_contain visit 0..num_hashes: checked by executing up to the cut
        for fname in ("insert", "might_contain"):
            st = state(shape, "rg" + fname)
            ex = Exec(fns, FIELDS, cut=(fname, loop_header(fns[fname])), fresh_prefix="rg" + fname)
            seen = []

            def on_cut(env):
                ids = set()
                for name, v in env.items():
                    if isinstance(v, Struct) and v.name == "Range" and id(v) not in ids:
                        ids.add(id(v))
                        seen.append((v.f[0], v.f[1]))
                return [z3.BoolVal(False)]      # stop here: only the prologue matters
            ex.on_cut = on_cut
            ex.run(fname, [Ptr("obj", st), Ptr("obj", key)])
            ok = len(seen) == 1
            if ok:
                s0, e0 = seen[0]
                discharge(f"{fname} iterates over 0..num_hashes", [z3.Or(bv(s0) != 0, bv(e0) != bv(st.f[2]))])
            else:
                inconclusive.append(f"{fname}: loop iterator not recognised")

        # vacuity: the shape exists, an iteration can continue, and an iteration can fail
        for nm, cs in (("shape reachable", []), ("an iteration can continue", [inrange(j), Cont(j, B)]),
                       ("an iteration can return false", [inrange(j)] + [z3.Or(*[pc for pc, _ in ret_false])] if ret_false else [z3.BoolVal(False)])):
            v, mdl, dt = solve(base + cs, timeout_ms)
            queries += 1
            solver_s += dt
            results.append({"shape": ctor, "obligation": "witness: " + nm, "verdict": v})
            if v != "sat":
                inconclusive.append(f"vacuity witness failed for {ctor}: {nm} is {v}")

        # translator validation against the real filter (with_params shapes, solver-independent small inputs)
        if native is not None and ctor == "with_params":
            for (mm, kk, keys) in ((0, 0, [0, 1]), (64, 2, [5]), (65, 1, [7, 8]), (1000, 7, [1, 2, 3]), (4096, 40, [9])):
                rep = native({"job": "bloom", "ctor": "with_params", "m": mm, "k": kk, "keys": keys})
                if not rep.get("ok") or rep.get("panic"):
                    inconclusive.append(f"native bloom job failed for {(mm, kk)}: {rep}")
                    continue
                sub = [(m_, bv(mm)), (k_, bv(kk))]
                pred = [z3.simplify(z3.substitute(bv(t), *sub)).as_long() for t in (ln, nb, k)]
                real = [rep["words"], rep["num_bits"], rep["num_hashes"]]
                if pred != real:
                    inconclusive.append(f"MIR translator mispredicts with_params{(mm, kk)}: model {pred} real {real}")
                    continue
                # index function: feed the real hash pair through the executor's get_bit_index
                ok = True
                for kr in rep["keys"]:
                    for ii, real_idx in enumerate(kr["idx"]):
                        st = Struct("BloomFilter", [VecV(z3.K(BVS, bv(0)), bv(real[0])), bv(real[1]), bv(real[2]), bv(0)])
                        exv = Exec(fns, FIELDS, fresh_prefix="tv")
                        ps = [p for p in exv.run("get_bit_index", [Ptr("obj", st), bv(kr["h1"]), bv(kr["h2"]), bv(ii)]) if p[0] == "return"]
                        got = z3.simplify(bv(ps[0][2])).as_long() if len(ps) == 1 else None
                        if got != real_idx:
                            ok = False
                            inconclusive.append(f"MIR translator mispredicts get_bit_index({kr['h1']},{kr['h2']},{ii}) on {(mm, kk)}: model {got} real {real_idx}")
                if ok:
                    validated += 1
                # the bit array after the inserts is the OR of the predicted positions
                if ok and rep["bits"]:
                    want = [0] * rep["words"]
                    for kr in rep["keys"]:
                        for x in kr["idx"]:
                            want[x // 64] |= 1 << (x % 64)
                    if want != rep["bits"] or not all(rep["contains"]):
                        inconclusive.append(f"real filter {(mm, kk)} disagrees with its own index function: {rep}")

    return {"functions": ["BloomFilter::" + n for n in need], "impl": impl, "shapes": [s[0] for s in shapes],
            "results": results, "violations": violations, "inconclusive": sorted(set(inconclusive)),
            "translator_validated_on": validated, "queries": queries, "solver_s": round(solver_s, 2),
            "assumptions": sorted(notes)}


def is_count_overflow(what):
    return isinstance(what, str) and "attempt to compute `{} + {}`" in what


def short(what):
    s = str(what)
    m = re.search(r'"([^"]+)"', s)
    return (m.group(1) if m else s)[:70]


def find_struct(env, name):
    seen = set()

    def walk(x):
        if id(x) in seen:
            return None
        seen.add(id(x))
        if isinstance(x, Struct) and x.name == name:
            return x
        if isinstance(x, Ptr):
            return walk(x.base) if x.kind in ("obj", "field") else None
        if isinstance(x, dict):
            for v in x.values():
                r = walk(v)
                if r is not None:
                    return r
        return None
    return walk(env)


def loop_header(fn):
    """the block that calls Range::next (the loop header of a `for i in a..b`)"""
    for bb, lines in fn["blocks"].items():
        for l in lines:
            if "<std::ops::Range<usize> as Iterator>::next" in l:
                return bb
    return None


def replay_shape(native, ctor, cex):
    if native is None:
        return None
    if ctor == "with_params":
        if cex["m"] > (1 << 26):
            return {"error": "shape too large for native replay"}
        return native({"job": "bloom", "ctor": "with_params", "m": cex["m"], "k": cex["k"], "search": 3000})
    # `new`: search a few (n, p) whose real shape equals the counterexample's shape
    cand = [(n, p) for n in (1, 2, 3, 10, 100, 1000, 5000) for p in (0.5, 0.1, 0.01, 0.001, 1e-6)]
    for n, p in cand:
        rep = native({"job": "bloom", "ctor": "new", "n": n, "p": p, "keys": []})
        if rep.get("ok") and rep.get("num_bits") == cex["num_bits"] and rep.get("num_hashes") == cex["num_hashes"]:
            cand = [(n, p)] + cand
            break
    last = None
    for n, p in cand[:12]:
        last = native({"job": "bloom", "ctor": "new", "n": n, "p": p, "search": 1000})
        if last.get("ok"):
            last.update({"n": n, "p": p})
            if last.get("fail_key") is not None:
                return last
    return last


if __name__ == "__main__":
    import sys, json
    r = check_bloom(open(sys.argv[1]).read())
    print(json.dumps(r, indent=1, default=str))
