#!/bin/bash
# RUSTC_WRAPPER: add -Zunpretty=mir only when compiling the inputlayer lib crate
rustc="$1"; shift
if [[ " $* " == *" --crate-name inputlayer "* && " $* " == *" --crate-type lib "* ]]; then
  exec "$rustc" "$@" -Zunpretty=mir -C debug-assertions=off -C overflow-checks=on -o "$VERIF_MIR_OUT"
else
  exec "$rustc" "$@"
fi
