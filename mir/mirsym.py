"""Engine M: a small symbolic executor over rustc MIR (text dump, `-Zunpretty=mir`) for loop-free functions
whose calls are to standard-library functions with a documented contract (modelled below).

Used for `protocol::handler::apply_pagination` (C35): Kani cannot carry `Vec<WireTuple>` with a symbolic
`take(n)`/`collect()` (CBMC out of memory / timeout), but the function's MIR is 19 basic blocks of index
arithmetic around library calls.  Sequences (Vec, slice, iterators) are modelled as *views* (offset, length)
into the input vector, so the verdict holds for every input length - there is no size bound.

The MIR is regenerated from /repo's working tree on every run (nightly `cargo check` with a RUSTC_WRAPPER that
adds -Zunpretty=mir for the inputlayer lib crate only).
"""
import os, re, subprocess, sys, time

sys.path.insert(0, os.path.join(os.path.dirname(os.path.dirname(os.path.abspath(__file__))), "p"))
import smt as S

USIZE_MAX = 2 ** 64 - 1


class MirError(Exception):
    pass


# ---------------------------------------------------------------------------------------------
# MIR dump + parse
# ---------------------------------------------------------------------------------------------

def dump_mir(repo="/repo", out=None, target=None, timeout=3600):
    here = os.path.dirname(os.path.abspath(__file__))
    cache = os.path.join(os.path.dirname(here), ".cache")
    out = out or os.path.join(cache, "inputlayer.mir")
    target = target or os.path.join(cache, "mir-target")
    env = dict(os.environ)
    env.update({"VERIF_MIR_OUT": out, "RUSTC_WRAPPER": os.path.join(here, "rustc_wrap.sh"),
                "CARGO_TARGET_DIR": target, "CARGO_NET_OFFLINE": "true"})
    if os.path.exists(out):
        os.remove(out)
    # force the lib crate to be re-checked even when nothing changed (the dump is a side effect)
    lib = os.path.join(repo, "src", "lib.rs")
    t0 = time.time()
    p = subprocess.run(["cargo", "+nightly", "check", "--offline", "--lib", "--features", "verif-hooks"], cwd=repo,
                       env=env, stdout=subprocess.PIPE, stderr=subprocess.STDOUT, text=True, timeout=timeout)
    if not os.path.exists(out):
        # cargo considered the crate fresh: invalidate its fingerprint and retry once
        subprocess.run(["cargo", "+nightly", "clean", "--offline", "-p", "inputlayer"], cwd=repo, env=env,
                       stdout=subprocess.DEVNULL, stderr=subprocess.DEVNULL)
        p = subprocess.run(["cargo", "+nightly", "check", "--offline", "--lib", "--features", "verif-hooks"], cwd=repo,
                           env=env, stdout=subprocess.PIPE, stderr=subprocess.STDOUT, text=True, timeout=timeout)
    if not os.path.exists(out):
        raise MirError("MIR dump failed: " + p.stdout[-600:])
    return out, time.time() - t0


def extract_fn(mir_text, name):
    m = re.search(r"^fn " + re.escape(name) + r"\(", mir_text, re.M)
    if not m:
        raise MirError(f"function {name} not found in MIR")
    i = m.start()
    j = mir_text.index("\n}\n", i)
    return mir_text[i:j + 3]


def parse_fn(text):
    sig = text[:text.index("{")]
    args = re.findall(r"(_\d+): ", sig)
    blocks = {}
    for m in re.finditer(r"^    (bb\d+)(?: \(cleanup\))?: \{\n(.*?)^    \}", text, re.M | re.S):
        lines = [l.strip() for l in m.group(2).strip().split("\n") if l.strip()]
        blocks[m.group(1)] = lines
    return {"args": args, "blocks": blocks, "text": text}


# ---------------------------------------------------------------------------------------------
# values
# ---------------------------------------------------------------------------------------------

class Opt:
    def __init__(self, tag, val):
        self.tag, self.val = tag, val      # tag: 0/1 term, val: Int term


class Seq:
    """A view into the input vector: elements input[off .. off+len)."""
    def __init__(self, off, ln):
        self.off, self.len = off, ln


class Range:
    def __init__(self, start):
        self.start = start


def MIN(a, b):
    return S.ITE(S.CMP("Le", a, b), a, b)


# ---------------------------------------------------------------------------------------------
# executor
# ---------------------------------------------------------------------------------------------

class Exec:
    def __init__(self, fn, env):
        self.fn = fn
        self.paths = []       # (kind, condition list, value)   kind in return / panic / unreachable
        self.env0 = env
        self.steps = 0

    def operand(self, tok, env):
        tok = tok.strip()
        m = re.match(r"^(?:copy|move) (.+)$", tok)
        if m:
            return self.place(m.group(1), env)
        m = re.match(r"^const (-?\d+)_(?:usize|u64|isize|i64|u8|i32|u32)$", tok)
        if m:
            return int(m.group(1))
        if tok in ("const true", "const false"):
            return tok == "const true"
        m = re.match(r"^&(?:mut )?(_\d+)$", tok)
        if m:
            return env[m.group(1)]
        raise MirError(f"operand {tok!r}")

    def place(self, p, env):
        p = p.strip()
        m = re.match(r"^\(\((_\d+) as Some\)\.0: \w+\)$", p)
        if m:
            return env[m.group(1)].val
        m = re.match(r"^\((_\d+)\.(\d+): [^)]+\)$", p)
        if m:
            v = env[m.group(1)]
            return v[int(m.group(2))]
        if p.startswith("(*") and p.endswith(")"):
            return env[p[2:-1]]
        if p in env:
            return env[p]
        raise MirError(f"place {p!r}")

    def call(self, f, args, env, conds):
        """Library models.  Returns (value, panic_condition or None)."""
        a = [self.operand(x, env) for x in args]
        if re.search(r"Option::<\w+>::unwrap_or$", f):
            return S.ITE(S.EQ(a[0].tag, 1), a[0].val, a[1]), None
        if re.search(r"Vec::<.*>::len$", f) or f.endswith("]>::len"):
            return a[0].len, None
        if re.search(r"Vec::<.*>::new$", f):
            return Seq(0, 0), None
        if "as std::ops::Index<std::ops::RangeFrom<usize>>>::index" in f:
            # slice_index contract: panics when start > len
            v, r = a
            return Seq(S.ADD(v.off, r.start), S.SUB(v.len, r.start)), S.CMP("Gt", r.start, v.len)
        if "as std::ops::Index<std::ops::Range<usize>>>::index" in f:
            v, r = a
            bad = S.OR(S.CMP("Gt", r.start, r.end), S.CMP("Gt", r.end, v.len))
            return Seq(S.ADD(v.off, r.start), S.SUB(r.end, r.start)), bad
        if f.endswith("::to_vec") or f.endswith("]>::iter") or "as Iterator>::cloned" in f or "as Iterator>::collect" in f \
                or f.endswith("::into_iter") or "as Iterator>::copied" in f:
            return Seq(a[0].off, a[0].len), None
        if "as Iterator>::take" in f:
            return Seq(a[0].off, MIN(a[0].len, a[1])), None
        if "as Iterator>::skip" in f:
            n = MIN(a[0].len, a[1])
            return Seq(S.ADD(a[0].off, n), S.SUB(a[0].len, n)), None
        raise MirError(f"no model for call {f}")

    def run(self):
        self.block("bb0", dict(self.env0), [])
        return self.paths

    def block(self, bb, env, conds):
        self.steps += 1
        if self.steps > 5000:
            raise MirError("step limit (loop?)")
        for line in self.fn["blocks"][bb]:
            line = line.rstrip(";")
            if line.startswith(("StorageLive", "StorageDead", "nop", "FakeRead", "PlaceMention", "Retag", "AscribeUserType")):
                continue
            # terminators
            if line == "return":
                self.paths.append(("return", conds, env.get("_0")))
                return
            if line == "unreachable":
                self.paths.append(("unreachable", conds, None))
                return
            if line == "resume" or line.startswith("resume"):
                self.paths.append(("panic", conds, None))
                return
            m = re.match(r"^goto -> (bb\d+)$", line)
            if m:
                return self.block(m.group(1), env, conds)
            m = re.match(r"^drop\((.+?)\) -> \[return: (bb\d+), unwind[^\]]*\]$", line)
            if m:
                return self.block(m.group(2), env, conds)
            m = re.match(r"^switchInt\((.+?)\) -> \[(.+)\]$", line)
            if m:
                v = self.operand(m.group(1), env)
                arms = [x.strip() for x in m.group(2).split(",")]
                seen = []
                for arm in arms:
                    k, tgt = [x.strip() for x in arm.split(":")]
                    if k == "otherwise":
                        c = S.AND(*[S.NOT(x) for x in seen])
                    else:
                        kv = int(k)
                        c = (v == bool(kv)) if isinstance(v, bool) else \
                            (S.EQ(v, kv) if not (isinstance(v, str) and self.is_bool(v)) else (v if kv else S.NOT(v)))
                        seen.append(c)
                    if c is False:
                        continue
                    self.block(tgt, dict(env), conds + [c])
                return
            m = re.match(r"^assert\((!?)(.+?), .*\) -> \[success: (bb\d+), unwind[^\]]*\]$", line)
            if m:
                v = self.operand(m.group(2), env)
                ok = S.NOT(v) if m.group(1) else v
                if S.NOT(ok) is not False:
                    self.paths.append(("panic", conds + [S.NOT(ok)], None))
                return self.block(m.group(3), env, conds + [ok])
            m = re.match(r"^(_\d+) = (.+?)\((.*)\) -> \[return: (bb\d+), unwind[^\]]*\]$", line)
            if m:
                dst, f, args, tgt = m.groups()
                argl = self.split_args(args)
                val, bad = self.call(f, argl, env, conds)
                if bad is not None and bad is not False:
                    self.paths.append(("panic", conds + [bad], None))
                    conds = conds + [S.NOT(bad)]
                env[dst] = val
                return self.block(tgt, env, conds)
            # statements
            m = re.match(r"^(_\d+) = (.+)$", line)
            if m:
                env[m.group(1)] = self.rvalue(m.group(2), env)
                continue
            raise MirError(f"statement {line!r}")
        raise MirError(f"block {bb} fell through")

    bool_terms = set()

    def is_bool(self, t):
        return t in self.bool_terms or t.startswith(("(>", "(<", "(=", "(not", "(and", "(or", "b!"))

    def split_args(self, s):
        out, depth, cur = [], 0, ""
        for ch in s:
            if ch in "(<[{":
                depth += 1
            if ch in ")>]}":
                depth -= 1
            if ch == "," and depth == 0:
                out.append(cur)
                cur = ""
            else:
                cur += ch
        if cur.strip():
            out.append(cur)
        return out

    def rvalue(self, r, env):
        r = r.strip()
        m = re.match(r"^(Ge|Gt|Le|Lt|Eq|Ne)\((.+), (.+)\)$", r)
        if m:
            t = S.CMP(m.group(1), self.operand(m.group(2), env), self.operand(m.group(3), env))
            if isinstance(t, str):
                self.bool_terms.add(t)
            return t
        m = re.match(r"^(Add|Sub|Mul)(WithOverflow)?\((.+), (.+)\)$", r)
        if m:
            a, b = self.operand(m.group(3), env), self.operand(m.group(4), env)
            v = {"Add": S.ADD, "Sub": S.SUB, "Mul": S.MUL}[m.group(1)](a, b)
            if m.group(2):
                ovf = S.OR(S.CMP("Gt", v, USIZE_MAX), S.CMP("Lt", v, 0))
                return (v, ovf)
            return v
        m = re.match(r"^Not\((.+)\)$", r)
        if m:
            return S.NOT(self.operand(m.group(1), env))
        m = re.match(r"^discriminant\((_\d+)\)$", r)
        if m:
            return env[m.group(1)].tag
        m = re.match(r"^std::ops::RangeFrom::<usize> \{ start: (.+) \}$", r)
        if m:
            return Range(self.operand(m.group(1), env))
        m = re.match(r"^&(?:mut )?(.+)$", r)
        if m:
            return self.place(m.group(1), env)
        return self.operand(r, env)


# ---------------------------------------------------------------------------------------------
# the pagination obligation
# ---------------------------------------------------------------------------------------------

def check_apply_pagination(mir_text, native=None, timeout_ms=60000):
    """forall len, limit, offset:  apply_pagination(rows, limit, offset) does not panic and returns the view
    rows[start .. start + min(limit or inf, len - start)] with start = offset or 0 (empty when start >= len).

    native(len, limit, offset) -> list of row indices | "panic": the real function, used (a) to validate this
    translator on one solver-chosen input per return path and (b) to replay counterexamples."""
    S.reset()
    fn = parse_fn(extract_fn(mir_text, "apply_pagination"))
    ln = S.int_var("len")
    lt, lv = S.int_var("limit_tag"), S.int_var("limit_val")
    ot, ov = S.int_var("offset_tag"), S.int_var("offset_val")
    dom = [S.CMP("Ge", ln, 0), S.CMP("Le", ln, USIZE_MAX // 32)]
    for t, v in ((lt, lv), (ot, ov)):
        dom += [S.OR(S.EQ(t, 0), S.EQ(t, 1)), S.CMP("Ge", v, 0), S.CMP("Le", v, USIZE_MAX)]
    small = [S.CMP("Le", ln, 6), S.CMP("Le", lv, 8), S.CMP("Le", ov, 8)]
    env = {"_1": Seq(0, ln), "_2": Opt(lt, lv), "_3": Opt(ot, ov)}
    ex = Exec(fn, env)
    paths = ex.run()
    start = S.ITE(S.EQ(ot, 1), ov, 0)
    avail = S.ITE(S.CMP("Ge", start, ln), 0, S.SUB(ln, start))
    want_len = S.ITE(S.EQ(lt, 1), MIN(lv, avail), avail)

    def inputs(look):
        return {"len": look(ln, "Int"), "limit": look(lv, "Int") if look(lt, "Int") == 1 else None,
                "offset": look(ov, "Int") if look(ot, "Int") == 1 else None}

    def expected(i):
        st = i["offset"] or 0
        rows = list(range(i["len"]))[st:]
        return rows if i["limit"] is None else rows[:i["limit"]]

    results, violations, inconclusive, validated, queries, solver_s = [], [], [], 0, 0, 0.0
    for pi, (kind, conds, val) in enumerate(paths):
        pc = S.AND(*conds)
        if kind == "return":
            name = "returned view is rows[start..start+min(limit,len-start)]"
            good = S.AND(S.EQ(val.len, want_len), S.OR(S.EQ(val.len, 0), S.EQ(val.off, start)))
            bad = S.AND(pc, S.NOT(good))
            # vacuity + translator validation: the path is feasible, and on a solver-chosen small input the real
            # function returns exactly the view this executor computed
            t0 = time.time()
            v, look = S.solve_z3py(dom + small + [pc, S.CMP("Ge", ln, 2)], timeout_ms)
            if v != "sat":
                v, look = S.solve_z3py(dom + small + [pc], timeout_ms)
            queries += 1
            solver_s += time.time() - t0
            if v == "sat" and native is not None:
                i = inputs(look)
                got = native(i["len"], i["limit"], i["offset"])
                # model prediction for this input: evaluate the view under the model
                S.int_var("m_off"), S.int_var("m_len")
                v2, look2 = S.solve_z3py(dom + [pc, S.EQ(ln, i["len"]), S.EQ(lt, 1 if i["limit"] is not None else 0),
                                                S.EQ(ot, 1 if i["offset"] is not None else 0)] +
                                         ([S.EQ(lv, i["limit"])] if i["limit"] is not None else []) +
                                         ([S.EQ(ov, i["offset"])] if i["offset"] is not None else []) +
                                         [S.EQ("m_off", val.off), S.EQ("m_len", val.len)], timeout_ms)
                if v2 == "sat":
                    mo, ml = look2("m_off", "Int"), look2("m_len", "Int")
                    pred = list(range(mo, mo + ml))
                    validated += 1
                    if got != pred:
                        inconclusive.append(f"MIR translator mispredicts the real function on {i}: model {pred} native {got}")
            elif v != "sat":
                inconclusive.append(f"return path {pi} is infeasible or undecided (vacuity)")
        elif kind == "panic":
            name, bad = "no panic path is feasible", pc
        else:
            name, bad = "unreachable is unreachable", pc
        if bad is False:
            results.append({"path": pi, "kind": kind, "obligation": name, "verdict": "unsat", "trivial": True})
            continue
        t0 = time.time()
        v, look = S.solve_z3py(dom + small + [bad], timeout_ms)      # prefer a small counterexample
        if v != "sat":
            v, look = S.solve_z3py(dom + [bad], timeout_ms)
        queries += 2
        solver_s += time.time() - t0
        r = {"path": pi, "kind": kind, "obligation": name, "verdict": v, "solver_ms": int((time.time() - t0) * 1000)}
        if v == "sat":
            i = inputs(look)
            r["counterexample"] = i
            if native is not None and i["len"] <= 100000:
                got = native(i["len"], i["limit"], i["offset"])
                r["native"] = got if got == "panic" else got[:20]
                if got == "panic" or got != expected(i):
                    violations.append((i, name, got))
                else:
                    inconclusive.append(f"counterexample {i} does not reproduce natively (translator/model problem)")
            else:
                inconclusive.append(f"counterexample {i} too large to replay natively")
        elif v != "unsat":
            inconclusive.append(f"obligation '{name}' on path {pi} undecided")
        results.append(r)
    return {"function": "protocol::handler::apply_pagination", "paths": len(paths), "blocks": len(fn["blocks"]),
            "results": results, "violations": violations, "inconclusive": inconclusive,
            "translator_validated_on": validated, "queries": queries, "solver_s": round(solver_s, 2)}


if __name__ == "__main__":
    text = open(sys.argv[1]).read()
    import json
    r = check_apply_pagination(text)
    print(json.dumps(r, indent=1))
